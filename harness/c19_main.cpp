// C19 harness: operation schema (OSS) soundness and freshness.
//  * a deterministic SourceManager (adapted from the upstream test utility FakeSourceManager:
//    sources are in-memory RSForms; a pending change is announced once by TriggerSave, and only by
//    an open document; closing drops a pending announcement; Open re-announces the document) is
//    installed; its WriteData / announcement hooks give the harness the exact order of synthesis
//    executions inside one API call and the operand contents each execution read;
//  * which code is under test (the four pinned defects repaired or not) is decided by four probes
//    at start-up and handed to the model in `c19 reset m?n?i?t?`;
//  * five fixed histories first (K1-K3 + the null-translations fault: minimal witnesses of the
//    defects found; K4: reload + ExecuteAll), then random histories: a random shape (chain,
//    diamond, two children, three levels, twin operations) followed by random steps — insert base
//    / operation (incl. refused calls), erase, create / connect / close / open / destroy sources,
//    edit operand and result schemas through the real RSForm API, announce, InitFor (merge /
//    synthesis with equation options), Execute, ExecuteAll, "save all" + save -> JSON -> load with
//    shuffled items and connections; each history in a forked child, uid generator seeded;
//  * after every step: `c19 dump` (all facets + StatusOf + sources; compared with the Lean model),
//    `c19 chk <dump>` (structural invariants evaluated by Lean on the implementation's own dump),
//    `c19 ichk` (structural invariants evaluated here through the public API), `c19 stale`
//    (freshness oracle: an operation reporting `done` was built from the announced content of
//    both parents; also computed by the model from its ghost fields), and after each successful
//    Execute `c19 execres` (stored result against BinarySynthes of the parents' current schemas,
//    the user's additions to the previous result carried over).
//  VERIF_SKIP_KNOWN=1: a step that would trip one of the KNOWN defect classes (decided by a dry
//  run of exactly that step in a forked child) is replaced by `c19 noop skipped-known-<class>`.
//  VERIF_C19_EXTRA=6|7|8 (not part of a check run): replays ONE fixed history that violates a hypothesis of
//  the Lean theorem no_stale_done_repaired (X6: TriggerOpen of an open document with a pending change,
//  X7: a new document under the name of a destroyed one, X8: a loaded document with the two connections of
//  a child swapped) — the closed counterexamples of no_stale_done_hypotheses_needed; pipe the op lines through
//  ccdriver to compare the implementation with the model.
#include "common.hpp"
#include "verif_seed.hpp"
#include "ccl/oss/OSSchema.h"
#include "ccl/env/cclEnvironment.h"
#include "ccl/ops/RSOperations.h"
#include "ccl/oss/RSSynthesProcessor.h"
#include "ccl/semantic/RSForm.h"
#include "ccl/tools/JSON.h"
#include <algorithm>
#include <list>
#include <map>
#include <set>
#include <regex>

using namespace ccl;
using ccl::semantic::RSForm;
using ccl::semantic::CstType;
using ccl::oss::OSSchema;
using ccl::oss::PictID;
using ccl::ops::EquationOptions;
using vh::emit;
using JSON = nlohmann::ordered_json;

// ---------------------------------------------------------------------------------------------
// deterministic source manager
struct VManager;
static VManager* g_mgr = nullptr;

struct Event { char kind; int sid; uint32_t hash; };   // 'w' write, 'a' announce, 'o' open
static std::vector<Event> g_log;
static std::function<void(int)> g_onWrite;             // called before the data of source sid is replaced

struct VSource final : public src::Source, public types::Observer {
  RSForm schema{};
  std::u8string fullName{};
  int id{ 0 };
  bool unwritable{ false };
  bool saved{ true };
  bool open{ true };
  uint32_t announced{ 1 };   // CoreHash at the last announcement (creation / TriggerSave / TriggerOpen)

  VSource() { schema.AddObserver(*this); }
  ~VSource() override { schema.RemoveObserver(*this); }
  VSource(const VSource&) = delete;
  VSource& operator=(const VSource&) = delete;

  void OnObserve(const types::Message&) override { saved = false; }

  void TriggerSave() {
    if (!saved && open) {   // only an open document announces its changes
      saved = true;
      announced = schema.CoreHash();
      g_log.push_back({ 'a', id, announced });
      Environment::Sources().OnSourceChange(*this);
    }
  }
  void TriggerOpen() {
    open = true;
    announced = schema.CoreHash();
    g_log.push_back({ 'o', id, announced });
    Environment::Sources().OnSourceOpen(*this);
  }
  void TriggerClose() {
    Environment::Sources().OnSourceClose(*this);
    open = false;
    saved = true;     // as the upstream fake: a pending announcement is dropped
  }

  [[nodiscard]] change::Hash CoreHash() const override { return schema.CoreHash(); }
  [[nodiscard]] change::Hash FullHash() const override { return schema.FullHash(); }
  [[nodiscard]] bool WriteData(meta::UniqueCPPtr<src::DataStream> data) override {
    if (unwritable) return false;
    const auto* rs = dynamic_cast<const RSForm*>(data.get());
    if (rs == nullptr) return false;
    if (g_onWrite) g_onWrite(id);
    schema = *rs;     // notifies: saved = false
    g_log.push_back({ 'w', id, schema.CoreHash() });
    return true;
  }
  [[nodiscard]] const src::DataStream* ReadData() const override { return &schema; }
  [[nodiscard]] src::DataStream* AccessData() override { return &schema; }
  [[nodiscard]] src::SrcType Type() const noexcept override { return src::SrcType::rsDoc; }
};

struct VManager final : public SourceManager {
  std::list<VSource> sources{};
  mutable int counter{ 0 };

  static VSource& Cast(src::Source& s) { return dynamic_cast<VSource&>(s); }
  static std::u8string nameOf(int id) { return to_u8string("s" + std::to_string(id) + ".trs"); }
  static int idOfName(const std::u8string& n) {
    const auto s = u8to_string(n);
    if (s.size() < 6 || s[0] != 's') return -1;
    return std::atoi(s.c_str() + 1);
  }
  VSource* byId(int id) { for (auto& s : sources) if (s.id == id) return &s; return nullptr; }
  VSource* byName(const std::u8string& n) { for (auto& s : sources) if (s.fullName == n) return &s; return nullptr; }

  VSource& CreateUser() {
    ++counter;
    auto* s = CreateNew(src::Descriptor{ src::SrcType::rsDoc, nameOf(counter) });
    return Cast(*s);
  }
  void Destroy(VSource& s) {
    for (auto it = sources.begin(); it != sources.end(); ++it) {
      if (&*it == &s) {
        if (s.open) s.TriggerClose();
        sources.erase(it);
        return;
      }
    }
  }

  [[nodiscard]] bool TestDomain(const src::Descriptor&, const std::u8string&) const override { return true; }
  [[nodiscard]] src::Descriptor Convert2Local(const src::Descriptor& g, const std::u8string&) const override { return g; }
  [[nodiscard]] src::Descriptor Convert2Global(const src::Descriptor& l, const std::u8string&) const override { return l; }
  [[nodiscard]] src::Descriptor CreateLocalDesc(src::SrcType type, std::u8string localName) const override {
    if (type != src::SrcType::rsDoc) return SourceManager::CreateLocalDesc(type, localName);
    if (std::empty(localName)) return src::Descriptor{ type, nameOf(++counter) };   // always a new name
    return src::Descriptor{ type, localName + u8".trs" };
  }
  [[nodiscard]] src::Source* Find(const src::Descriptor& desc) override {
    if (desc.type != src::SrcType::rsDoc) return nullptr;
    for (auto& s : sources) if (s.fullName == desc.name && s.open) return &s;
    return nullptr;
  }
  [[nodiscard]] src::Descriptor GetDescriptor(const src::Source& s) const override {
    if (const auto* p = dynamic_cast<const VSource*>(&s); p != nullptr) return src::Descriptor{ src::SrcType::rsDoc, p->fullName };
    return src::Descriptor{};
  }
  [[nodiscard]] src::Source* CreateNew(const src::Descriptor& desc) override {
    if (desc.type != src::SrcType::rsDoc) return nullptr;
    for (auto& s : sources) if (s.fullName == desc.name) return nullptr;
    sources.emplace_back();
    sources.back().fullName = desc.name;
    sources.back().id = idOfName(desc.name);
    sources.back().announced = sources.back().schema.CoreHash();
    return &sources.back();
  }
  [[nodiscard]] src::Source* Open(const src::Descriptor& desc) override {
    if (desc.type == src::SrcType::rsDoc) {
      for (auto& s : sources) if (s.fullName == desc.name) { s.TriggerOpen(); return &s; }
    }
    return nullptr;
  }
  void Close(src::Source& s) override {
    Cast(s).TriggerSave();
    Cast(s).TriggerClose();
  }
  [[nodiscard]] bool SaveState(src::Source& s) override {
    if (Cast(s).open) { Cast(s).TriggerSave(); return true; }
    return false;
  }
  void Discard(const src::Descriptor& desc) override {
    if (auto* s = byName(desc.name); s != nullptr) {
      s->ReleaseClaim();
      if (s->open) Close(*s);
    }
  }
};

// ---------------------------------------------------------------------------------------------
static bool g_skipKnown = false;
static bool g_quiet = false;       // dry run: no lines
static void out(const std::string& op, const std::string& res) { if (!g_quiet) { emit(op, res); fflush(stdout); } }

struct Built { bool known{ false }; uint32_t h[2]{ 0, 0 }; bool has[2]{ false, false }; };

struct World {
  std::unique_ptr<OSSchema> oss;
  std::map<uint32_t, int> hashIds;          // CoreHash -> small id (0 -> 0)
  std::map<PictID, Built> built;            // parents' content at the last execution (ghost)
  std::vector<PictID> execOrder;            // ... in order, with the content written
  std::vector<int> execContent;
  std::vector<PictID> known;                // pids that exist or existed
  std::set<PictID> foreign;                 // operation picts whose document was attached by hand

  int hid(uint32_t h) {
    if (h == 0) return 0;
    auto it = hashIds.find(h);
    if (it != hashIds.end()) return it->second;
    const int id = static_cast<int>(hashIds.size()) + 1;
    hashIds.emplace(h, id);
    return id;
  }
  VSource* srcOf(PictID pid) const {
    const auto* h = oss->Src()(pid);
    if (h == nullptr || std::empty(h->desc.name)) return nullptr;
    return g_mgr->byName(h->desc.name);
  }
  std::vector<PictID> pids() const {
    std::vector<PictID> v;
    for (const auto& p : *oss) v.push_back(p.uid);
    std::sort(v.begin(), v.end());
    return v;
  }
  std::vector<PictID> opsList() const {
    std::vector<PictID> v;
    for (const auto pid : pids()) if (oss->Ops()(pid) != nullptr) v.push_back(pid);
    return v;
  }
};

static const char* typeName(ops::Type t) { return t == ops::Type::tba ? "tba" : t == ops::Type::rsMerge ? "merge" : t == ops::Type::rsSynt ? "synt" : "?"; }
static const char* statusName(ops::Status s) {
  switch (s) {
  case ops::Status::undefined: return "undef"; case ops::Status::defined: return "defined"; case ops::Status::done: return "done";
  case ops::Status::outdated: return "outdated"; case ops::Status::broken: return "broken";
  }
  return "?";
}

static std::string dump(World& w) {
  const auto& oss = *w.oss;
  std::string outS = "n=" + std::to_string(oss.size());
  for (const auto pid : w.pids()) {
    outS += " " + std::to_string(pid) + ":";
    // grid cells holding this pict
    std::vector<std::pair<int, int>> cells;
    for (const auto& [pos, p] : oss.Grid().data()) if (p == pid) cells.emplace_back(pos.row, pos.column);
    std::sort(cells.begin(), cells.end());
    if (cells.empty()) outS += "-";
    for (size_t i = 0; i < cells.size(); ++i) { if (i) outS += "+"; outS += std::to_string(cells[i].first) + "," + std::to_string(cells[i].second); }
    outS += ":";
    const auto parents = oss.Graph().ParentsOf(pid);
    if (parents.empty()) outS += "-";
    for (size_t i = 0; i < parents.size(); ++i) { if (i) outS += ","; outS += std::to_string(parents[i]); }
    outS += ":";
    if (const auto* h = oss.Src()(pid); h == nullptr) outS += "nohandle";
    else {
      outS += (h->src != nullptr ? "c" : "u");
      outS += "," + (std::empty(h->desc.name) ? std::string("-") : std::to_string(VManager::idOfName(h->desc.name)));
      outS += "," + std::to_string(w.hid(h->coreHash));
    }
    outS += ":";
    if (const auto* o = oss.Ops()(pid); o == nullptr) outS += "-";
    else {
      outS += typeName(o->type);
      const auto* eq = dynamic_cast<const EquationOptions*>(o->options.get());
      outS += std::string(",") + (o->options == nullptr ? "n" : (eq != nullptr && eq->empty()) ? "e" : "v");
      outS += std::string(",") + (o->translations != nullptr ? "1" : "0") + (o->broken ? "1" : "0") + (o->outdated ? "1" : "0");
    }
    outS += std::string(":") + statusName(oss.Ops().StatusOf(pid));
  }
  outS += " E=";
  const auto edges = oss.Graph().EdgeList();
  if (edges.empty()) outS += "-";
  for (size_t i = 0; i < edges.size(); ++i) { if (i) outS += ","; outS += std::to_string(edges[i].first) + ">" + std::to_string(edges[i].second); }
  outS += " X=";
  const auto order = oss.Graph().ExecuteOrder();
  if (order.empty()) outS += "-";
  for (size_t i = 0; i < order.size(); ++i) { if (i) outS += ","; outS += std::to_string(order[i]); }
  outS += " S=";
  if (g_mgr->sources.empty()) outS += "-";
  bool first = true;
  for (auto& s : g_mgr->sources) {
    if (!first) outS += ",";
    first = false;
    outS += std::to_string(s.id) + ":" + (s.open ? "1" : "0") + (s.saved ? "1" : "0") + ":" + std::to_string(w.hid(s.schema.CoreHash()));
  }
  return outS;
}

// structural invariants of the property, evaluated through the public API
static std::string ichk(const World& w) {
  const auto& oss = *w.oss;
  std::vector<std::string> fails;
  const auto pids = w.pids();
  std::set<PictID> all(pids.begin(), pids.end());
  if (oss.Grid().data().size() != oss.size()) fails.push_back("grid-size");
  for (const auto& [pos, p] : oss.Grid().data()) if (!all.count(p)) fails.push_back("grid-dangling");
  std::map<PictID, std::vector<PictID>> childrenByParents;
  for (const auto pid : pids) {
    if (!oss.Grid()(pid).has_value()) fails.push_back("no-cell");
    else if (oss.Grid()(oss.Grid()(pid).value()) != std::optional<PictID>(pid)) fails.push_back("cell-mismatch");
    if (oss.Src()(pid) == nullptr) fails.push_back("no-src-handle");
    const auto parents = oss.Graph().ParentsOf(pid);
    const bool isOp = oss.Ops()(pid) != nullptr;
    if (isOp) {
      if (parents.size() != 2) fails.push_back("op-parents-" + std::to_string(parents.size()));
      else if (parents[0] == parents[1]) fails.push_back("op-equal-parents");
    } else if (!parents.empty()) fails.push_back("base-with-parents");
    size_t idx = 0;
    for (const auto par : parents) {
      if (!all.count(par)) fails.push_back("parent-missing");
      childrenByParents[par].push_back(pid);
      if (oss.Graph().ParentIndex(par, pid) != std::optional<size_t>(idx) && parents[0] != parents[parents.size() - 1]) fails.push_back("parent-index");
      ++idx;
    }
  }
  for (const auto pid : pids) {
    auto ch = oss.Graph().ChildrenOf(pid);
    auto expect = childrenByParents[pid];
    std::sort(ch.begin(), ch.end()); std::sort(expect.begin(), expect.end());
    if (ch != expect) fails.push_back("children-vs-parents");
  }
  for (const auto& [c, p] : oss.Graph().EdgeList()) {
    if (!all.count(c) || !all.count(p)) fails.push_back("edge-dangling");
    else { const auto ps = oss.Graph().ParentsOf(c); if (std::find(ps.begin(), ps.end(), p) == ps.end()) fails.push_back("edge-vs-parents"); }
  }
  for (const auto x : oss.Graph().ExecuteOrder()) if (!all.count(x)) fails.push_back("order-dangling");
  // acyclic: repeatedly remove picts all of whose parents are removed
  {
    std::set<PictID> done;
    bool progress = true;
    while (progress) {
      progress = false;
      for (const auto pid : pids) {
        if (done.count(pid)) continue;
        bool ok = true;
        for (const auto par : oss.Graph().ParentsOf(pid)) if (!done.count(par)) ok = false;
        if (ok) { done.insert(pid); progress = true; }
      }
    }
    if (done.size() != pids.size()) fails.push_back("cycle");
  }
  // a source is attached to at most one pict
  {
    std::set<std::u8string> names;
    for (const auto pid : pids) if (const auto* h = oss.Src()(pid); h != nullptr && !std::empty(h->desc.name)) {
      if (!names.insert(h->desc.name).second) fails.push_back("source-shared");
    }
  }
  if (fails.empty()) return "1";
  std::sort(fails.begin(), fails.end()); fails.erase(std::unique(fails.begin(), fails.end()), fails.end());
  std::string r = "0:";
  for (size_t i = 0; i < fails.size(); ++i) { if (i) r += "+"; r += fails[i]; }
  return r;
}

// freshness oracle: `done` => built from the announced content of both parents
//   classes: exec  = the differing parent is an operation that was (re)executed after the child,
//            lost  = the differing parent's announcement was made while the schema did not listen,
//            gone  = the parent has no source any more
static std::string staleOracle(World& w, std::string* klass = nullptr) {
  const auto& oss = *w.oss;
  for (const auto pid : w.opsList()) {
    const auto* h = oss.Src()(pid);
    if (h == nullptr || std::empty(*h)) continue;
    if (oss.Ops().StatusOf(pid) != ops::Status::done) continue;
    const auto it = w.built.find(pid);
    if (it == w.built.end() || !it->second.known) continue;
    const auto parents = oss.Graph().ParentsOf(pid);
    for (size_t i = 0; i < parents.size() && i < 2; ++i) {
      auto* s = w.srcOf(parents[i]);
      std::string k;
      const auto* ph = oss.Src()(parents[i]);
      if (ph != nullptr && std::empty(*ph)) k = "gone";
      else if (s == nullptr) continue;   // the document itself was destroyed: no content to compare with
      else if (!it->second.has[i] || s->announced != it->second.h[i]) k = (oss.Ops()(parents[i]) != nullptr) ? "exec" : "lost";
      if (!k.empty()) {
        if (klass != nullptr) *klass = k;
        return "0:" + k + ":" + std::to_string(pid) + "_done_but_parent_" + std::to_string(parents[i]) + "_changed";
      }
    }
  }
  return "1";
}

static std::string maskIds(const std::string& s) {
  // a reference whose target has no counterpart in the new result is marked NAME_ERROR by design
  static const std::regex err("_ERROR");
  static const std::regex re("([XCSADFTP])[0-9]+");
  return std::regex_replace(std::regex_replace(s, err, ""), re, "$1#");
}

struct OldResult { bool had{ false }; int sid{ -1 }; std::vector<std::string> additions; std::set<std::string> additionAliases; };

static OldResult snapshotResult(World& w, PictID pid) {
  OldResult r;
  if (auto* s = w.srcOf(pid); s != nullptr) {
    r.had = true; r.sid = s->id;
    for (const auto uid : s->schema.Core()) if (!s->schema.Mods().IsTracking(uid)) {
      r.additions.push_back(maskIds(s->schema.GetRS(uid).definition));
      r.additionAliases.insert(s->schema.GetRS(uid).alias);
    }
    std::sort(r.additions.begin(), r.additions.end());
  }
  return r;
}

// exec-result oracle after Execute(pid) == true
static std::string execResult(World& w, PictID pid, const OldResult& old) {
  const auto& oss = *w.oss;
  const auto parents = oss.Graph().ParentsOf(pid);
  if (parents.size() != 2) return "0:parents";
  auto* s1 = w.srcOf(parents[0]); auto* s2 = w.srcOf(parents[1]); auto* sr = w.srcOf(pid);
  if (s1 == nullptr || s2 == nullptr) return "0:executed-without-operand-data";
  if (sr == nullptr) return "0:no-result";
  const auto* o = oss.Ops()(pid);
  const auto* eq = dynamic_cast<const EquationOptions*>(o->options.get());
  ops::BinarySynthes synth(s1->schema, s2->schema, eq != nullptr ? *eq : EquationOptions{});
  if (!synth.IsCorrectlyDefined()) return "0:executed-although-not-defined";
  const auto expect = synth.Execute();
  auto key = [](const RSForm& f) {
    std::vector<std::string> v;
    for (const auto uid : f.Core()) v.push_back(f.GetRS(uid).alias + "=" + f.GetRS(uid).definition);
    std::sort(v.begin(), v.end());
    return v;
  };
  const auto ke = key(*expect), kr = key(sr->schema);
  std::vector<std::string> extra;
  std::set_difference(kr.begin(), kr.end(), ke.begin(), ke.end(), std::back_inserter(extra));
  std::vector<std::string> missing;
  std::set_difference(ke.begin(), ke.end(), kr.begin(), kr.end(), std::back_inserter(missing));
  if (!missing.empty()) return "0:result-lacks-" + missing.front();
  const bool sameSource = old.had && old.sid == sr->id;
  std::vector<std::string> carried;
  for (const auto uid : sr->schema.Core()) if (!sr->schema.Mods().IsTracking(uid)) carried.push_back(maskIds(sr->schema.GetRS(uid).definition));
  std::sort(carried.begin(), carried.end());
  if (sameSource) {
    // NAME_ERROR marks a reference whose target has no counterpart in the new result - never a reference to another
    // user addition, which is carried over itself (seeded change C19-5: additions translated in one pass, so a reference
    // to an addition transferred later was marked)
    for (const auto uid : sr->schema.Core()) if (!sr->schema.Mods().IsTracking(uid)) {
      static const std::regex marked("([XCSADFTP][0-9]+)_ERROR");
      const auto& def = sr->schema.GetRS(uid).definition;
      for (auto it = std::sregex_iterator(def.begin(), def.end(), marked); it != std::sregex_iterator(); ++it)
        if (old.additionAliases.count((*it)[1].str())) return "0:reference-to-a-carried-addition-marked-" + (*it)[0].str();
    }
    if (carried != old.additions) {
      std::string d = "0:additions-not-carried:old=";
      for (const auto& a : old.additions) d += "[" + vh::hex(a) + "]";
      d += ";new=";
      for (const auto& a : carried) d += "[" + vh::hex(a) + "]";
      return d;
    }
    if (extra.size() != old.additions.size()) return "0:extra-" + std::to_string(extra.size()) + "-vs-" + std::to_string(old.additions.size());
  } else {
    if (!extra.empty() || !carried.empty()) return "0:fresh-result-has-extra";
    if (sr->schema.CoreHash() != expect->CoreHash()) return "0:hash";
  }
  if (w.hid(oss.Src()(pid)->coreHash) != w.hid(sr->schema.CoreHash())) return "0:handle-hash";
  return "1";
}

// ---------------------------------------------------------------------------------------------
static std::string brokenMap(World& w) {
  std::string r;
  for (const auto pid : w.opsList()) {
    if (!r.empty()) r += ",";
    r += std::to_string(pid) + "=" + (w.oss->Ops()(pid)->broken ? "1" : "0");
  }
  return r.empty() ? "-" : r;
}

static std::string execLog(World& w) {
  std::string r;
  for (size_t i = 0; i < w.execOrder.size(); ++i) {
    if (i) r += ",";
    r += std::to_string(w.execOrder[i]) + "=" + std::to_string(w.execContent[i]);
  }
  return r.empty() ? "-" : r;
}

// operations whose stored data cannot be aggregated with a new result (trial run of the aggregation
// on copies, against the operands' current data): oracle input of the model (`aggOk`)
static std::string aggFailList(World& w) {
  std::string r;
  auto add = [&](PictID pid) { r += (r.empty() ? "" : ",") + std::to_string(pid); };
  for (const auto pid : w.opsList()) {
    const auto* o = w.oss->Ops()(pid);
    auto* sr = w.srcOf(pid);
    if (sr == nullptr || o->translations == nullptr) continue;
    const bool isForeign = w.foreign.count(pid) > 0;
    const auto parents = w.oss->Graph().ParentsOf(pid);
    if (parents.size() != 2) continue;
    auto* s1 = w.srcOf(parents[0]); auto* s2 = w.srcOf(parents[1]);
    // a document attached by hand does not contain what the stored translations speak about
    if (s1 == nullptr || s2 == nullptr) { if (isForeign) add(pid); continue; }
    const auto* eq = dynamic_cast<const EquationOptions*>(o->options.get());
    ops::BinarySynthes synth(s1->schema, s2->schema, eq != nullptr ? *eq : EquationOptions{});
    if (!synth.IsCorrectlyDefined()) { if (isForeign) add(pid); continue; }
    auto res = synth.Execute();
    for (const auto uid : res->Core()) res->Mods().Track(uid);
    if (synth.Translations().size() != o->translations->size()) { add(pid); continue; }
    const auto vt = oss::RSSProcessor{}.CreateVersionTranslation(o->type, *o->translations, synth.Translations());
    if (!res->Ops().ExtrapolateFromPrevious(sr->schema, vt).has_value()) add(pid);
  }
  return r.empty() ? "-" : r;
}

static void installHooks(World& w) {
  g_onWrite = [&w](int sid) {
    // the pict whose result is being written
    for (const auto pid : w.pids()) {
      const auto* h = w.oss->Src()(pid);
      if (h == nullptr || std::empty(h->desc.name) || VManager::idOfName(h->desc.name) != sid) continue;
      Built b; b.known = true;
      const auto parents = w.oss->Graph().ParentsOf(pid);
      for (size_t i = 0; i < parents.size() && i < 2; ++i) {
        if (auto* s = w.srcOf(parents[i]); s != nullptr) { b.has[i] = true; b.h[i] = s->schema.CoreHash(); }
      }
      w.built[pid] = b;
      w.foreign.erase(pid);
      w.execOrder.push_back(pid);
      w.execContent.push_back(-1);
      return;
    }
  };
}

static void afterStep(World& w) {
  // contents written by the executions of this step
  size_t k = 0;
  for (const auto& e : g_log) if (e.kind == 'w' && k < w.execContent.size()) w.execContent[k++] = w.hid(e.hash);
}

static void beginStep(World& w) {
  g_log.clear(); w.execOrder.clear(); w.execContent.clear();
}

static void report(World& w) {
  const auto d = dump(w);
  out("c19 dump", d);
  out("c19 chk " + d, "1");
  out("c19 ichk", ichk(w));
  out("c19 stale", staleOracle(w));
}

// dry run of one step in a forked child: does it trip a KNOWN defect class?
//   stale:exec / stale:lost / stale:gone (freshness oracle), fault:nulltr (Execute of an operation whose
//   stored data has no translations). Anything else is not known: the step is then run for real.
static std::string dryRun(World& w, const std::function<void()>& step) {
  bool nullTr = false;
  for (const auto pid : w.opsList()) {
    const auto* h = w.oss->Src()(pid);
    if (h != nullptr && !std::empty(*h) && w.oss->Ops()(pid)->translations == nullptr) nullTr = true;
  }
  const auto r = vh::forked([&]() -> std::string {
    g_quiet = true;
    step();
    std::string klass;
    const auto s = staleOracle(w, &klass);
    if (s != "1") return "stale:" + klass;
    return "ok";
  }, 60);
  if (r.rfind("fault", 0) == 0) return nullTr ? "fault:nulltr" : "ok";
  return r;
}

static std::vector<uint32_t> baseCsts(const RSForm& f) {
  std::vector<uint32_t> v;
  for (const auto uid : f.List()) if (f.GetRS(uid).type == CstType::base) v.push_back(uid);
  return v;
}

static const std::string UNION = "\xE2\x88\xAA";

struct Hist {
  vh::Rng& rng;
  World w;

  explicit Hist(vh::Rng& r) : rng(r) {}

  // a step that may trip a known defect class is dry-run first (VERIF_SKIP_KNOWN=1)
  bool allowed(const std::function<void()>& step) {
    if (!g_skipKnown) return true;
    const auto k = dryRun(w, step);
    if (k == "ok") return true;
    out("c19 noop skipped-known-" + k, "ok");
    report(w);
    return false;
  }

  PictID pickPid() {
    const auto cur = w.pids();
    if (!cur.empty() && rng.chance(9, 10)) return rng.pick(cur);
    if (!w.known.empty() && rng.chance(1, 2)) return rng.pick(w.known);
    return static_cast<PictID>(rng.range(1, 5));
  }
  PictID pickOp() {
    const auto o = w.opsList();
    if (!o.empty() && rng.chance(19, 20)) return rng.pick(o);
    return pickPid();
  }
  VSource* pickSrc() {
    if (g_mgr->sources.empty()) return nullptr;
    auto it = g_mgr->sources.begin();
    std::advance(it, rng.below(static_cast<uint32_t>(g_mgr->sources.size())));
    return &*it;
  }
  std::string editSchema(RSForm& f) {
    const int r = rng.range(0, 99);
    std::vector<uint32_t> all(f.List().begin(), f.List().end());
    if (r < 25 || all.empty()) { f.Emplace(CstType::base); return "addbase"; }
    if (r < 60) {
      const auto bases = baseCsts(f);
      const std::string a = bases.empty() ? "X1" : f.GetRS(rng.pick(bases)).alias;
      f.Emplace(CstType::term, rng.chance(1, 2) ? a : a + UNION + a);
      return "addterm";
    }
    if (r < 72) { return f.Erase(rng.pick(all)) ? "erase" : "erase-refused"; }
    if (r < 85) {
      const auto uid = rng.pick(all);
      if (f.GetRS(uid).type == CstType::term) { return f.SetExpressionFor(uid, "X1\\X1") ? "setexpr" : "setexpr-refused"; }
    }
    f.SetTermFor(rng.pick(all), "name" + std::to_string(rng.range(1, 3)));   // not part of the formal content
    return "setterm";
  }

  PictID insBase() {
    beginStep(w);
    const auto pid = w.oss->InsertBase()->uid;
    w.known.push_back(pid);
    out("c19 insbase " + std::to_string(pid), std::to_string(pid));
    report(w);
    return pid;
  }
  PictID insOp(PictID a, PictID b) {
    beginStep(w);
    const auto* p = w.oss->InsertOperation(a, b);
    const PictID pid = p == nullptr ? 0 : p->uid;
    if (pid != 0) w.known.push_back(pid);
    out("c19 insop " + std::to_string(a) + " " + std::to_string(b) + " " + std::to_string(pid), std::to_string(pid));
    report(w);
    return pid;
  }
  void erase(PictID pid) {
    beginStep(w);
    if (!allowed([&] { w.oss->Erase(pid); })) return;
    const bool ok = w.oss->Erase(pid);
    if (ok) w.built.erase(pid);
    out("c19 erase " + std::to_string(pid) + " " + brokenMap(w), ok ? "1" : "0");
    report(w);
  }
  VSource& newSrc(int edits) {
    beginStep(w);
    auto& s = g_mgr->CreateUser();
    s.schema.Emplace(CstType::base);
    for (int k = 0; k < edits; ++k) editSchema(s.schema);
    s.TriggerSave();
    out("c19 newsrc " + std::to_string(s.id) + " " + std::to_string(w.hid(s.schema.CoreHash())), "ok");
    report(w);
    return s;
  }
  void connect(PictID pid, VSource& s) {
    beginStep(w);
    if (!allowed([&] { w.oss->Src().ConnectPict2Src(pid, s); })) return;
    const bool ok = w.oss->Src().ConnectPict2Src(pid, s);
    if (ok) w.built.erase(pid);
    if (ok && w.oss->Ops()(pid) != nullptr) w.foreign.insert(pid);
    out("c19 connect " + std::to_string(pid) + " " + std::to_string(s.id) + " " + brokenMap(w), ok ? "1" : "0");
    report(w);
  }
  void edit(VSource& s, bool addition = false) {
    beginStep(w);
    std::string what = "addition";
    if (addition) {
      // one addition over X1, or two additions the FIRST of which refers to the second (listed later)
      const auto first = s.schema.Emplace(CstType::term, "X1");
      if (rng.chance(1, 2)) {
        const auto second = s.schema.Emplace(CstType::term, "X1\xE2\x88\xAAX1");
        s.schema.SetExpressionFor(first, s.schema.GetRS(second).alias + "\\X1");
        what = "addition-pair";
      }
    } else what = editSchema(s.schema);
    // a refused edit notifies nobody: the document has no pending change
    if (s.saved) out("c19 noop " + what, "ok");
    else out("c19 edit " + std::to_string(s.id) + " " + std::to_string(w.hid(s.schema.CoreHash())) + " " + what, "ok");
    report(w);
  }
  void addTerm(VSource& s) {
    beginStep(w);
    s.schema.Emplace(CstType::term, "X1");
    out("c19 edit " + std::to_string(s.id) + " " + std::to_string(w.hid(s.schema.CoreHash())) + " addterm", "ok");
    report(w);
  }
  void announce(VSource& s) {
    beginStep(w);
    if (!allowed([&] { s.TriggerSave(); })) return;
    s.TriggerSave();
    out("c19 announce " + std::to_string(s.id) + " " + brokenMap(w), "ok");
    report(w);
  }
  void closeSrc(VSource& s) {
    beginStep(w);
    if (!s.open) { out("c19 noop", "ok"); report(w); return; }
    s.TriggerClose();
    out("c19 close " + std::to_string(s.id), "ok");
    report(w);
  }
  void openSrc(VSource& s) {
    beginStep(w);
    if (s.open) { out("c19 noop", "ok"); report(w); return; }
    if (!allowed([&] { s.TriggerOpen(); })) return;
    s.TriggerOpen();
    out("c19 open " + std::to_string(s.id) + " " + brokenMap(w), "ok");
    report(w);
  }
  void destroy(VSource& s) {
    beginStep(w);
    const int id = s.id;
    g_mgr->Destroy(s);
    out("c19 destroy " + std::to_string(id), "ok");
    report(w);
  }
  // optMode: 0 = nullptr, 1 = empty equations, 2 = one equation between base sets of the operands, 3 = invalid equation
  void init(PictID pid, ops::Type type, int optMode) {
    beginStep(w);
    std::unique_ptr<EquationOptions> eq;
    std::string optKind = "n";
    if (optMode >= 1) { eq = std::make_unique<EquationOptions>(); optKind = "e"; }
    if (optMode == 2) {
      const auto parents = w.oss->Graph().ParentsOf(pid);
      if (parents.size() == 2) {
        auto* s1 = w.srcOf(parents[0]); auto* s2 = w.srcOf(parents[1]);
        if (s1 != nullptr && s2 != nullptr) {
          const auto b1 = baseCsts(s1->schema), b2 = baseCsts(s2->schema);
          if (!b1.empty() && !b2.empty()) { eq->Insert(rng.pick(b1), rng.pick(b2)); optKind = "v"; }
        }
      }
    } else if (optMode == 3) { eq->Insert(42U, 43U); optKind = "v"; }
    bool same = false;
    if (const auto* o = w.oss->Ops()(pid); o != nullptr && o->options != nullptr && eq != nullptr) same = o->options->IsEqualTo(*eq);
    const std::string line = "c19 init " + std::to_string(pid) + " " + typeName(type) + " " + optKind + " " + (same ? "1" : "0");
    auto call = [&]() {
      std::unique_ptr<ops::Options> o2;
      if (eq != nullptr) o2 = std::make_unique<EquationOptions>(*eq);
      return w.oss->Ops().InitFor(pid, type, std::move(o2));
    };
    if (!allowed([&] { call(); })) return;
    const bool hadSrc = w.oss->Contains(pid) && w.srcOf(pid) != nullptr;
    const bool ok = call();
    if (ok && hadSrc && w.srcOf(pid) == nullptr) { w.built.erase(pid); w.foreign.erase(pid); }
    out(line + " " + brokenMap(w), ok ? "1" : "0");
    report(w);
  }
  bool exec(PictID pid, bool autoDiscard) {
    beginStep(w);
    if (!allowed([&] { (void)w.oss->Ops().Execute(pid, autoDiscard); })) return false;
    const auto old = w.oss->Contains(pid) ? snapshotResult(w, pid) : OldResult{};
    const auto aggFail = aggFailList(w);
    const bool ok = w.oss->Ops().Execute(pid, autoDiscard);
    afterStep(w);
    out("c19 exec " + std::to_string(pid) + " " + (autoDiscard ? "1" : "0") + " " + execLog(w) + " " + brokenMap(w) + " " + aggFail, ok ? "1" : "0");
    if (ok) out("c19 execres " + std::to_string(pid), execResult(w, pid, old));
    report(w);
    return ok;
  }
  void execAll() {
    beginStep(w);
    if (!allowed([&] { w.oss->Ops().ExecuteAll(); })) return;
    const auto aggFail = aggFailList(w);
    w.oss->Ops().ExecuteAll();
    afterStep(w);
    out("c19 execall " + execLog(w) + " " + brokenMap(w) + " " + aggFail, "ok");
    report(w);
  }
  // save -> JSON -> load with shuffled items and connections (the two edges of a child keep their order)
  void reload() {
    // "save all": pending changes of connected documents are announced before the schema is saved
    for (auto& s : g_mgr->sources) if (s.open && !s.saved) announce(s);
    beginStep(w);
    JSON doc = *w.oss;
    std::vector<JSON> items(doc["items"].begin(), doc["items"].end());
    for (size_t k = items.size(); k > 1; --k) std::swap(items[k - 1], items[rng.below(static_cast<uint32_t>(k))]);
    const auto edges = doc["connections"].get<std::vector<std::pair<PictID, PictID>>>();
    std::vector<PictID> children;
    for (const auto& e : edges) if (std::find(children.begin(), children.end(), e.first) == children.end()) children.push_back(e.first);
    for (size_t k = children.size(); k > 1; --k) std::swap(children[k - 1], children[rng.below(static_cast<uint32_t>(k))]);
    std::vector<std::pair<PictID, PictID>> shuffled;
    if (rng.chance(1, 2)) {
      for (const auto c : children) for (const auto& e : edges) if (e.first == c) shuffled.push_back(e);
    } else {
      for (int round = 0; round < 2; ++round) for (const auto c : children) {
        int seen = 0;
        for (const auto& e : edges) if (e.first == c) { if (seen == round) shuffled.push_back(e); ++seen; }
      }
    }
    doc["items"] = JSON::array();
    std::string order;
    for (const auto& it : items) { doc["items"] += it; if (!order.empty()) order += ","; order += std::to_string(it.at("pictUID").get<PictID>()); }
    doc["connections"] = shuffled;
    std::string eorder;
    for (const auto& e : shuffled) { if (!eorder.empty()) eorder += ","; eorder += std::to_string(e.first) + ">" + std::to_string(e.second); }
    const std::string text = doc.dump();
    w.oss.reset();       // the old schema goes away: closes every connected source
    w.oss = std::make_unique<OSSchema>();
    JSON::parse(text).get_to(*w.oss);
    out("c19 reload " + (order.empty() ? std::string("-") : order) + " " + (eorder.empty() ? std::string("-") : eorder), "ok");
    report(w);
  }

  // --- steps outside the contract of the manager / of to_json: only used by VERIF_C19_EXTRA (hypotheses of
  //     no_stale_done_repaired: admissibleStep)
  void reopenOpen(VSource& s) {
    beginStep(w);
    s.TriggerOpen();
    out("c19 open " + std::to_string(s.id) + " " + brokenMap(w), "ok");
    report(w);
  }
  void newSrcNamed(int id) {
    beginStep(w);
    auto* s = g_mgr->CreateNew(src::Descriptor{ src::SrcType::rsDoc, VManager::nameOf(id) });
    auto& vs = VManager::Cast(*s);
    vs.schema.Emplace(CstType::base); vs.schema.Emplace(CstType::term, "X1");
    vs.TriggerSave();
    out("c19 newsrc " + std::to_string(vs.id) + " " + std::to_string(w.hid(vs.schema.CoreHash())), "ok");
    report(w);
  }
  void reloadSwapped(PictID child) {
    for (auto& s : g_mgr->sources) if (s.open && !s.saved) announce(s);
    beginStep(w);
    JSON doc = *w.oss;
    auto edges = doc["connections"].get<std::vector<std::pair<PictID, PictID>>>();
    std::vector<size_t> idx;
    for (size_t i = 0; i < edges.size(); ++i) if (edges[i].first == child) idx.push_back(i);
    if (idx.size() == 2) std::swap(edges[idx[0]], edges[idx[1]]);
    doc["connections"] = edges;
    std::string order, eorder;
    for (const auto& it : doc["items"]) { if (!order.empty()) order += ","; order += std::to_string(it.at("pictUID").get<PictID>()); }
    for (const auto& e : edges) { if (!eorder.empty()) eorder += ","; eorder += std::to_string(e.first) + ">" + std::to_string(e.second); }
    const std::string text = doc.dump();
    w.oss.reset();
    w.oss = std::make_unique<OSSchema>();
    JSON::parse(text).get_to(*w.oss);
    out("c19 reload " + order + " " + eorder, "ok");
    report(w);
  }

  PictID baseWithSource() {
    const auto p = insBase();
    connect(p, newSrc(rng.range(0, 2)));
    return p;
  }
  ops::Type someType() { return rng.chance(1, 2) ? ops::Type::rsMerge : ops::Type::rsSynt; }
  void define(PictID pid) {
    const auto t = someType();
    init(pid, t, t == ops::Type::rsMerge ? (rng.chance(1, 4) ? 1 : 0) : (rng.chance(1, 2) ? 2 : 1));
  }

  void setup() {
    const int shape = rng.range(0, 5);
    if (shape == 0) return;   // free-form
    const auto a = baseWithSource(), b = baseWithSource(), d = baseWithSource();
    const auto p = insOp(a, b);
    define(p);
    if (shape == 1) {         // chain: C = P + D
      const auto c = insOp(p, d); define(c);
      if (rng.chance(3, 4)) { exec(p, false); exec(c, false); }
    } else if (shape == 2) {  // diamond: R = (A+B) + (B+D)
      const auto q = insOp(b, d); define(q);
      const auto r = insOp(p, q); define(r);
      if (rng.chance(3, 4)) { if (rng.chance(1, 2)) execAll(); else { exec(p, false); exec(q, false); exec(r, false); } }
    } else if (shape == 3) {  // two children of one operation
      const auto e = baseWithSource();
      const auto c1 = insOp(p, d); define(c1);
      const auto c2 = insOp(e, p); define(c2);
      if (rng.chance(3, 4)) { exec(p, false); exec(c1, false); exec(c2, false); }
    } else if (shape == 4) {  // three levels
      const auto c = insOp(p, d); define(c);
      const auto e = baseWithSource();
      const auto g = insOp(c, e); define(g);
      if (rng.chance(3, 4)) exec(g, true);
      if (rng.chance(1, 2)) execAll();
    } else {                  // operation over the same pair twice + child over both
      const auto p2 = insOp(b, a); define(p2);
      const auto c = insOp(p, p2); define(c);
      if (rng.chance(3, 4)) execAll();
    }
  }

  void randomStep() {
    const int r = rng.range(0, 99);
    const size_t nP = w.oss->size();
    if (nP < 2 || r < 4) { if (rng.chance(1, 2)) insBase(); else baseWithSource(); }
    else if (r < 12) {
      PictID a = pickPid(), b = pickPid();
      if (rng.chance(1, 15)) b = a;
      const auto p = insOp(a, b);
      if (p != 0 && rng.chance(3, 4)) define(p);
    }
    else if (r < 16) erase(pickPid());
    else if (r < 21) {
      PictID pid = pickPid();
      for (int t = 0; t < 4 && w.oss->Contains(pid) && (!std::empty(*w.oss->Src()(pid)) || w.oss->Ops()(pid) != nullptr); ++t) pid = pickPid();
      if (w.oss->Contains(pid) && w.oss->Ops()(pid) != nullptr && !rng.chance(1, 8)) { beginStep(w); out("c19 noop", "ok"); report(w); }
      else connect(pid, newSrc(rng.range(0, 2)));
    }
    else if (r < 44) {
      auto* s = pickSrc();
      if (s == nullptr) { beginStep(w); out("c19 noop", "ok"); report(w); }
      else { edit(*s); if (rng.chance(3, 4)) announce(*s); }
    }
    else if (r < 48) { if (auto* s = pickSrc(); s != nullptr) announce(*s); }
    else if (r < 52) { if (auto* s = pickSrc(); s != nullptr) closeSrc(*s); }
    else if (r < 56) { if (auto* s = pickSrc(); s != nullptr) openSrc(*s); }
    else if (r < 57) { if (auto* s = pickSrc(); s != nullptr) destroy(*s); }
    else if (r < 65) {
      const auto pid = pickOp();
      const int t = rng.range(0, 19);
      const auto type = t < 1 ? ops::Type::tba : t < 10 ? ops::Type::rsMerge : ops::Type::rsSynt;
      const int m = rng.range(0, 9);
      init(pid, type, type == ops::Type::rsSynt ? (m < 1 ? 0 : m < 4 ? 1 : m < 9 ? 2 : 3) : (m < 6 ? 0 : m < 8 ? 1 : 3));
    }
    else if (r < 87) exec(pickOp(), rng.chance(1, 4));
    else if (r < 92) execAll();
    else if (r < 96) {
      const auto pid = pickOp();
      if (auto* s = w.oss->Contains(pid) ? w.srcOf(pid) : nullptr; s != nullptr) { edit(*s, true); if (rng.chance(1, 2)) announce(*s); }
    }
    else reload();
  }
};

// L < 0: the fixed regression histories (minimal witnesses of the defects found), -L selects one
static void history(vh::Rng& rng, int L, const std::string& variant) {
  Environment::Instance().SetSourceManager(std::make_unique<VManager>());
  g_mgr = dynamic_cast<VManager*>(&Environment::Sources());
  Hist h(rng);
  h.w.oss = std::make_unique<OSSchema>();
  installHooks(h.w);
  out("c19 reset " + variant, "ok");
  if (L < 0) {
    const auto a = h.insBase(); auto& sa = h.newSrc(0); h.connect(a, sa);
    const auto b = h.insBase(); auto& sb = h.newSrc(0); h.connect(b, sb);
    const auto d = h.insBase(); auto& sd = h.newSrc(0); h.connect(d, sd);
    const auto p = h.insOp(a, b); h.init(p, ops::Type::rsMerge, 0);
    const auto c = h.insOp(p, d); h.init(c, ops::Type::rsMerge, 0);
    h.exec(p, false); h.exec(c, false);
    if (L == -1) {            // K1: a re-executed operation leaves its child `done`
      h.addTerm(sa); h.announce(sa); h.exec(p, false);
    } else if (L == -2) {     // K2: an announcement made while the result is being saved is lost
      h.addTerm(sd); h.exec(p, false);
    } else if (L == -3) {     // K3: redefining an operation discards its result, the child stays `done`
      h.init(p, ops::Type::rsSynt, 1);
    } else if (L == -5) {     // a document attached by hand to an operation pict, then Execute
      auto& sx = h.newSrc(1); h.init(c, ops::Type::rsSynt, 1); h.connect(c, sx); h.exec(c, false); h.exec(c, true);
    } else if (L == -4) {     // the same through ExecuteAll on a diamond loaded child-first
      h.addTerm(sa); h.reload(); h.execAll();
    } else if (L == -6) {     // X6 (outside the manager contract): TriggerOpen of an OPEN document with a pending change
      h.addTerm(sa); h.reopenOpen(sa);
    } else if (L == -7) {     // X7 (outside the contract): a new document under the name of a destroyed one
      const int id = sd.id; h.destroy(sd); h.newSrcNamed(id);
    } else if (L == -8) {     // X8 (not a document produced by to_json): the two connections of a child swapped
      h.reloadSwapped(c);
    }
  } else {
    h.setup();
    for (int i = 0; i < L; ++i) h.randomStep();
  }
  g_onWrite = nullptr;
  h.w.oss.reset();
}


// which code is under test (decided by four probes, each in a forked child):
//   m = does a re-executed operation mark its children outdated (0 no = as pinned, 1 when the result's core
//       hash changed, 2 always), n = the do-not-disturb guard covers InputData only, i = InitFor tells the
//       children that the result was discarded, t = Execute copes with stored data without translations
struct Probe {
  OSSchema oss;
  PictID a, b, d, e, p, c, c2;
  VSource *sa, *sb, *sd, *se;
  Probe() {
    a = oss.InsertBase()->uid; b = oss.InsertBase()->uid; d = oss.InsertBase()->uid; e = oss.InsertBase()->uid;
    sa = &g_mgr->CreateUser(); sb = &g_mgr->CreateUser(); sd = &g_mgr->CreateUser(); se = &g_mgr->CreateUser();
    for (auto* s : { sa, sb, sd, se }) { s->schema.Emplace(CstType::base); s->TriggerSave(); }
    oss.Src().ConnectPict2Src(a, *sa); oss.Src().ConnectPict2Src(b, *sb); oss.Src().ConnectPict2Src(d, *sd); oss.Src().ConnectPict2Src(e, *se);
    p = oss.InsertOperation(a, b)->uid; c = oss.InsertOperation(p, d)->uid; c2 = oss.InsertOperation(d, e)->uid;
    oss.Ops().InitFor(p, ops::Type::rsMerge); oss.Ops().InitFor(c, ops::Type::rsMerge); oss.Ops().InitFor(c2, ops::Type::rsMerge);
  }
  bool execAll() { return oss.Ops().Execute(p) && oss.Ops().Execute(c) && oss.Ops().Execute(c2); }
};
static std::string probeVariant() {
  auto run = [](const std::function<std::string(Probe&)>& f) {
    return vh::forked([&]() -> std::string {
      Environment::Instance().SetSourceManager(std::make_unique<VManager>());
      g_mgr = dynamic_cast<VManager*>(&Environment::Sources());
      Probe pr;
      return f(pr);
    }, 60);
  };
  const auto done = [](Probe& pr, PictID x) { return pr.oss.Ops().StatusOf(x) == ops::Status::done; };
  const auto m = run([&](Probe& pr) -> std::string {
    if (!pr.execAll()) return "?";
    pr.sa->schema.Emplace(CstType::term, "X1"); pr.sa->TriggerSave();
    if (!pr.oss.Ops().Execute(pr.p)) return "?";
    if (done(pr, pr.c)) return "0";
    if (!pr.oss.Ops().Execute(pr.c) || !pr.oss.Ops().Execute(pr.p)) return "?";
    return done(pr, pr.c) ? "1" : "2";
  });
  const auto n = run([&](Probe& pr) -> std::string {
    if (!pr.execAll()) return "?";
    pr.sd->schema.Emplace(CstType::term, "X1");     // pending, announced while the result of p is saved
    if (!pr.oss.Ops().Execute(pr.p)) return "?";
    return done(pr, pr.c2) ? "0" : "1";
  });
  const auto i = run([&](Probe& pr) -> std::string {
    if (!pr.execAll()) return "?";
    if (!pr.oss.Ops().InitFor(pr.p, ops::Type::rsSynt, std::make_unique<EquationOptions>())) return "?";
    return done(pr, pr.c) ? "0" : "1";
  });
  auto t = run([&](Probe& pr) -> std::string {
    auto& sx = g_mgr->CreateUser();
    sx.schema.Emplace(CstType::base); sx.TriggerSave();
    if (!pr.oss.Src().ConnectPict2Src(pr.p, sx)) return "?";
    (void)pr.oss.Ops().Execute(pr.p);
    return "1";
  });
  if (t.rfind("fault", 0) == 0) t = "0";
  return "m" + m + "n" + n + "i" + i + "t" + t;
}

int main() {
  vh::Rng rng(vh::seedFromEnv());
  const bool deep = vh::thorough();
  if (const char* s = std::getenv("VERIF_SKIP_KNOWN"); s != nullptr && std::string(s) == "1") g_skipKnown = true;
  const std::string variant = probeVariant();
  if (const char* x = std::getenv("VERIF_C19_EXTRA"); x != nullptr) {
    // replay of one history that violates a hypothesis of the freshness theorem (not part of a check run)
    const int k = std::atoi(x);
    vh::Rng sub(static_cast<uint64_t>(k));
    vh::forkedEmit([&] { ccl::verif::Seed(static_cast<uint32_t>(k)); history(sub, -k, variant); }, "c19 crash", 300);
    return 0;
  }
  const int H = deep ? 2000 : 300, L = deep ? 30 : 20;
  for (int k = 1; k <= 5; ++k) {
    vh::Rng sub(static_cast<uint64_t>(k));
    vh::forkedEmit([&] { ccl::verif::Seed(static_cast<uint32_t>(k)); history(sub, -k, variant); }, "c19 crash", 300);
  }
  for (int h = 0; h < H; ++h) {
    const auto cs = rng.next();
    vh::Rng sub(cs);
    vh::forkedEmit([&] { ccl::verif::Seed(static_cast<uint32_t>(cs)); history(sub, L, variant); }, "c19 crash", 300);
  }
  return 0;
}
