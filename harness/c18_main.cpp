// C18 harness: a reused Parser / Auditor / Interpreter / schema auditor / static generator must
// answer every input exactly like a freshly constructed one. Sequences of inputs (valid,
// invalid, function definitions, multi-line MATH text, failing evaluations, aborted recursions)
// are fed to one long-lived object; each call is repeated on a fresh object and compared.
#include "common.hpp"
#include "frag.hpp"
#include "verif_seed.hpp"
#include "ast_wire.hpp"
#include "ccl/semantic/RSModel.h"
#include "ccl/rslang/Parser.h"
#include "ccl/rslang/Auditor.h"
#include "ccl/rslang/Interpreter.h"
#include "ccl/rslang/RSGenerator.h"
#include "ccl/rslang/Literals.h"
#include "ccl/api/RSFormJA.h"
#include <algorithm>

using namespace ccl;
using namespace ccl::semantic;
using vh::emit;

static std::string nosp(std::string s) { for (auto& c : s) if (c == ' ' || c == '\n' || c == '\t' || c == '\r') c = '_'; return s; }

static std::string errs(const rslang::ErrorLogger& log) {
  std::string out;
  for (const auto& e : log.All()) {
    out += std::to_string(e.eid) + "@" + std::to_string(e.position) + "(";
    for (const auto& p : e.params) out += p + ";";
    out += ")";
  }
  return out.empty() ? "-" : out;
}

static std::string parseOutcome(rslang::Parser& p, const std::string& text, rslang::Syntax hint) {
  const bool ok = p.Parse(text, hint);
  std::string out = std::string(ok ? "ok" : "fail") + "|syn=" + std::to_string(static_cast<int>(p.syntax)) + "|" + errs(p.Errors());
  if (ok) out += "|" + vh::astWire(p.AST().Root());
  return out;
}

static std::string typeOf(const rslang::ExpressionType& t) {
  if (const auto* ty = std::get_if<rslang::Typification>(&t); ty != nullptr) return ty->ToString();
  return "LOGIC";
}

static std::string auditOutcome(rslang::Auditor& a, const std::string& text, rslang::Syntax hint) {
  const bool ok = a.CheckType(text, hint);
  std::string out = std::string(ok ? "ok" : "fail") + "|" + errs(a.Errors());
  if (ok) {
    out += "|" + typeOf(a.GetType()) + "|args=";
    for (const auto& arg : a.GetDeclarationArgs()) out += arg.name + ":" + arg.type.ToString() + ",";
    const bool vok = a.CheckValue();
    out += std::string("|v=") + (vok ? "1" : "0") + ":" + std::to_string(static_cast<int>(a.GetValueClass())) + "|" + errs(a.Errors());
    out += "|" + rslang::AST2String::Apply(a.parser.AST());
  }
  return out;
}

static std::string evalOutcome(rslang::Interpreter& in, const std::string& text, rslang::Syntax hint) {
  const auto v = in.Evaluate(text, hint);
  std::string out;
  if (!v.has_value()) out = "none";
  else if (const auto* b = std::get_if<bool>(&v.value()); b != nullptr) out = *b ? "TRUE" : "FALSE";
  else out = std::get<object::StructuredData>(v.value()).ToString();
  // the iteration count is part of the result only when the call succeeds
  return out + "|it=" + (v.has_value() ? std::to_string(in.Iterations()) : std::string("-")) + "|" + errs(in.Errors());
}

struct World {
  RSModel model;
  rslang::DataContext data() const {
    return [this](const std::string& name) -> std::optional<object::StructuredData> {
      const auto uid = model.Core().FindAlias(name);
      if (!uid.has_value()) return std::nullopt;
      return model.Values().SDataFor(uid.value());
    };
  }
};

static ccl::EntityUID gF1 = 0;   // the term-function the histories redefine (context edits between calls)
static void build(World& w) {
  auto& m = w.model;
  const auto x1 = m.Emplace(CstType::base);
  const auto x2 = m.Emplace(CstType::base);
  m.Emplace(CstType::constant);
  const auto s1 = m.Emplace(CstType::structured, BOOL + "(X1\xC3\x97X1)");
  m.Emplace(CstType::term, "X1" + UNION + "X1");                                  // D1
  m.Emplace(CstType::term, "Pr1(S1)");                                            // D2
  gF1 = m.Emplace(CstType::function, "[\xCE\xB1\xE2\x88\x88" + BOOL + "(R1)] \xCE\xB1" + UNION + "\xCE\xB1");  // F1
  m.Emplace(CstType::predicate, "[\xCE\xB1\xE2\x88\x88" + BOOL + "(X1)] \xCE\xB1=\xCE\xB1");            // P1
  m.Emplace(CstType::axiom, "D1=D1");                                             // A1
  for (int i = 0; i < 3; ++i) m.Values().AddBasicElement(x1, "a" + std::to_string(i));
  m.Values().AddBasicElement(x2, "b");
  auto data = object::Factory::EmptySet();
  data.ModifyB().AddElement(object::Factory::Tuple({ object::Factory::Val(1), object::Factory::Val(2) }));
  data.ModifyB().AddElement(object::Factory::Tuple({ object::Factory::Val(2), object::Factory::Val(2) }));
  m.Values().SetStructureData(s1, data);
  m.Calculations().RecalculateAll();
}

static const std::vector<std::string>& inputs() {
  static const std::string IN = "\xE2\x88\x88", XI = "\xCE\xBE", ALL = "\xE2\x88\x80", EX = "\xE2\x88\x83", TIMES = "\xC3\x97";
  static const std::vector<std::string> v = {
    "X1", "X1" + UNION + "X2", "X1" + UNION + "D1", "D1\\X1", BOOL + "(X1)", "X1" + TIMES + "X1", "Pr1(S1)", "pr2(debool(S1))", "card(X1)+1",
    "D{" + XI + IN + "X1 | " + XI + IN + "D1}", "D{" + XI + IN + "X1 |\n " + XI + "=" + XI + "\n}", ALL + XI + IN + "X1 " + EX + "\xCE\xB6" + IN + "X1 " + XI + "=\xCE\xB6",
    "F1[X1]", "F1[X1, X1]", "P1[X1]", "P1[S1]", "[\xCE\xB1" + IN + BOOL + "(X1)] \xCE\xB1" + UNION + "X1", "[\xCE\xB1" + IN + BOOL + "(X1), \xCE\xB2" + IN + "X1] \xCE\xB2" + IN + "\xCE\xB1",
    "R{\xCE\xBE:=X1 | \xCE\xBE" + UNION + "X1}", "R{\xCE\xBE:=0 | \xCE\xBE<3 | \xCE\xBE+1}", "R{\xCE\xBE:=0 | \xCE\xBE+1}", "I{\xCE\xBE | \xCE\xBE:" + IN + "X1; \xCE\xBE" + IN + "D1}",
    "1=1", "1<2 & 2<3", "card(X1)>5", "debool(X1)", "debool({1})", "red(" + BOOL + "(X1))", "bool(X1)", "{1,2,3}", "(1,2)", "Fi1[X1](S1)", "Pr1,2(S1)",
    "X1" + UNION, "X1 " + UNION + " (", ")", "", " ", "\xE2\x88\x85", "X9", "D9" + UNION + "X1", "A1", "A1 & 1=1", "X1=A1", "x", "\xCE\xBE", "1+", "pr0(S1)", "Fi1[zz](\xE2\x88\x85)",
    "X1 \\union X2", "\\A a \\in X1 a \\eq a", "D{a \\in X1 | a \\in D1}", "card(X1) \\ls 2", "R{a \\assign X1 | a \\union X1}", "B(X1*X1)", "X1 \\union", "\\bad",
    "D3:==X1" + UNION + "X1", "S9::=" + BOOL + "(X1)", "F9:==[\xCE\xB1" + IN + "X1] {\xCE\xB1}", "X7:==", "2147483648", "12345678901234567890",
    "card(" + BOOL + BOOL + "(X1" + TIMES + "X1" + TIMES + "X1))", BOOL + "(" + BOOL + "(" + BOOL + "(X1" + TIMES + "X1)))=" + BOOL + "(X1)" };
  return v;
}

static const rslang::Syntax kHints[] = { rslang::Syntax::UNDEF, rslang::Syntax::MATH, rslang::Syntax::ASCII };

int main() {
  vh::Rng rng(vh::seedFromEnv());
  const bool deep = vh::thorough();
  ccl::verif::Seed(11U);
  const int SEQ = deep ? 400 : 60, LEN = deep ? 40 : 25;
  for (int s = 0; s < SEQ; ++s) {
    const auto cs = rng.next();
    vh::forkedEmit([&] {
      vh::Rng sub(cs);
      ccl::verif::Seed(static_cast<uint32_t>(cs));
      World w; build(w);
      const auto& schema = w.model.RSLang();
      rslang::Parser parser{};
      rslang::Auditor auditor{ schema, schema.VCContext(), schema.ASTContext() };
      rslang::Interpreter interp{ schema, schema.ASTContext(), w.data() };
      auto schemaAuditor = schema.MakeAuditor();
      emit("c18 reset", "ok");
      for (int i = 0; i < LEN; ++i) {
        // state that only some inputs write (declared arguments of a function definition, recursion rounds, name
        // collector) is visible only if such an input is followed by a SUCCESSFUL call of the same analyser: every
        // fourth step is a function definition (MATH or auto-detect hint) directly followed by audits of plain inputs
        static const std::vector<std::string> funcDefs = {
          "[\xCE\xB1\xE2\x88\x88\xE2\x84\xAC(X1)] \xCE\xB1\xE2\x88\xAAX1", "[\xCE\xB1\xE2\x88\x88\xE2\x84\xAC(X1), \xCE\xB2\xE2\x88\x88X1] \xCE\xB2\xE2\x88\x88\xCE\xB1",
          "F9:==[\xCE\xB1\xE2\x88\x88X1] {\xCE\xB1}", "[\xCE\xB1\xE2\x88\x88R1, \xCE\xB2\xE2\x88\x88\xE2\x84\xAC(R1)] \xCE\xB1\xE2\x88\x88\xCE\xB2" };
        // (also: analyses that fail part-way - a recursion failing inside its re-typing rounds, a call with a wrong
        // argument, an evaluation that hits a limit - followed by inputs whose answer includes WARNINGS)
        static const std::vector<std::string> plain = { "X1", "1=1", "X1\xE2\x88\xAAX2", "card(X1)+1", "Pr1(S1)",
          "\xE2\x88\x80\xCE\xBE\xE2\x88\x88X1 1=1", "D{\xCE\xBE\xE2\x88\x88X1 | 1=1}", "\xE2\x88\x80\xCE\xBE\xE2\x88\x88X1 \xCE\xBE=\xCE\xBE & \xE2\x88\x80\xCE\xBE\xE2\x88\x88X1 \xCE\xBE=\xCE\xBE" };
        static const std::vector<std::string> partway = { "R{\xCE\xBE:=\xE2\x88\x85 | {\xCE\xBE}}", "R{\xCE\xBE:=\xE2\x88\x85 | \xCE\xBE\xE2\x88\xAAX1\xE2\x88\xAAPr1(\xCE\xBE)}", "R{\xCE\xBE:=\xE2\x88\x85 | 1=1 | \xE2\x84\xAC(\xCE\xBE)}",
          "F1[X1, X1, X1]", "R{\xCE\xBE:=X1 | card(\xCE\xBE)}", "I{\xCE\xBE | \xCE\xBE:\xE2\x88\x88X1; \xCE\xBE:\xE2\x88\x88X1}", "\xE2\x88\x80\xCE\xBE\xE2\x88\x88X1 \xE2\x88\x80\xCE\xBE\xE2\x88\x88X1 \xCE\xBE=\xCE\xBE" };
        // the CONTEXT may change between two calls of the same analyser: the answer depends on the current context only
        // (seeded change C18-3: a memo of value classes per function call survives the redefinition of the function).
        // F1 is redefined so that the value class of F1[property argument] flips between 'as the argument' and 'value'.
        if (i % 5 == 4) {
          static const std::vector<std::string> bodies = {
            "[\xCE\xB1\xE2\x88\x88\xE2\x84\xAC(R1)] \xCE\xB1\xE2\x88\xAA\xCE\xB1", "[\xCE\xB1\xE2\x88\x88\xE2\x84\xAC(R1)] X1\xE2\x88\xAAX1",
            "[\xCE\xB1\xE2\x88\x88\xE2\x84\xAC(R1)] \xCE\xB1\\\xCE\xB1", "[\xCE\xB1\xE2\x88\x88\xE2\x84\xAC(R1)] D1" };
          w.model.SetExpressionFor(gF1, sub.pick(bodies));
          emit("c18 context-edit", "ok");
        }
        static const std::vector<std::string> propCalls = { "F1[\xE2\x84\xAC(X1)]", "card(F1[\xE2\x84\xAC(X1)])", "F1[\xE2\x84\xAC(X1)]\xE2\x88\xAAF1[\xE2\x84\xAC(X1)]",
          "F1[\xE2\x84\xAC(X1\xC3\x97X1)]", "X1\xE2\x88\x88F1[\xE2\x84\xAC(X1)]", "F1[X1]", "D{\xCE\xBE\xE2\x88\x88F1[\xE2\x84\xAC(X1)] | 1=1}" };
        if (i % 5 == 0 || i % 5 == 3) {
          const auto& ptext = sub.pick(propCalls);
          rslang::Auditor fresh{ schema, schema.VCContext(), schema.ASTContext() };
          const auto a = auditOutcome(auditor, ptext, rslang::Syntax::MATH), b = auditOutcome(fresh, ptext, rslang::Syntax::MATH);
          emit("c18 audit 1 " + vh::hex(ptext), a == b ? "1" : nosp("0:reused[" + a + "]fresh[" + b + "]"));
          auto freshS = schema.MakeAuditor();
          auto run = [&](SchemaAuditor& au) {
            const bool ok = au.CheckConstituenta("D7", ptext, CstType::term);
            std::string out = std::string(ok ? "ok" : "fail") + "|" + errs(au.Errors());
            if (ok) out += "|" + typeOf(au.GetType()) + "|v=" + (au.CheckValue() ? std::to_string(static_cast<int>(au.GetValueClass())) : std::string("x"));
            return out;
          };
          const auto c = run(*schemaAuditor), d = run(*freshS);
          emit("c18 cst 6 " + vh::hex(ptext), c == d ? "1" : nosp("0:reused[" + c + "]fresh[" + d + "]"));
        }
        const int phase = i % 4;
        const bool directed = phase >= 2;
        const auto& text = phase == 2 ? (sub.chance(1, 2) ? sub.pick(funcDefs) : sub.pick(partway)) : (phase == 3 ? sub.pick(plain) : sub.pick(inputs()));
        const auto hint = directed ? kHints[sub.range(0, 1)] : kHints[sub.range(0, 2)];
        const std::string tag = std::to_string(static_cast<int>(hint)) + " " + vh::hex(text);
        const int which = directed ? (sub.chance(2, 3) ? 1 : 3) : sub.range(0, 5);
        if (which == 0) {
          rslang::Parser fresh{};
          const auto a = parseOutcome(parser, text, hint), b = parseOutcome(fresh, text, hint);
          emit("c18 parse " + tag, a == b ? "1" : nosp("0:reused[" + a + "]fresh[" + b + "]"));
        } else if (which == 1) {
          rslang::Auditor fresh{ schema, schema.VCContext(), schema.ASTContext() };
          const auto a = auditOutcome(auditor, text, hint), b = auditOutcome(fresh, text, hint);
          emit("c18 audit " + tag, a == b ? "1" : nosp("0:reused[" + a + "]fresh[" + b + "]"));
        } else if (which == 2) {
          rslang::Interpreter fresh{ schema, schema.ASTContext(), w.data() };
          const auto a = evalOutcome(interp, text, hint), b = evalOutcome(fresh, text, hint);
          emit("c18 eval " + tag, a == b ? "1" : nosp("0:reused[" + a + "]fresh[" + b + "]"));
        } else if (which == 3) {
          auto fresh = schema.MakeAuditor();
          const CstType kinds[] = { CstType::term, CstType::function, CstType::axiom, CstType::structured, CstType::base, CstType::predicate };
          const auto kind = kinds[sub.range(0, 5)];
          auto run = [&](SchemaAuditor& au) {
            const bool ok = au.CheckConstituenta("D7", text, kind);
            std::string out = std::string(ok ? "ok" : "fail") + "|" + errs(au.Errors()) + "|p=" + std::to_string(au.prefixLen);
            if (ok) out += "|" + typeOf(au.GetType()) + "|v=" + (au.CheckValue() ? std::to_string(static_cast<int>(au.GetValueClass())) : std::string("x"));
            return out;
          };
          const auto a = run(*schemaAuditor), b = run(*fresh);
          emit("c18 cst " + std::to_string(static_cast<int>(kind)) + " " + vh::hex(text), a == b ? "1" : nosp("0:reused[" + a + "]fresh[" + b + "]"));
        } else if (which == 4) {
          // the library's internal shared generators: same input twice with other inputs in between
          const auto target = sub.chance(1, 2) ? rslang::Syntax::MATH : rslang::Syntax::ASCII;
          const auto first = rslang::ConvertTo(text, target);
          (void)rslang::ConvertTo(sub.pick(inputs()), sub.chance(1, 2) ? rslang::Syntax::MATH : rslang::Syntax::ASCII);
          (void)rslang::Generator::GlobalDefinition("D1", sub.pick(inputs()), sub.chance(1, 2));
          const auto second = rslang::ConvertTo(text, target);
          emit("c18 convert " + std::to_string(static_cast<int>(target)) + " " + vh::hex(text), first == second ? "1" : nosp("0:[" + first + "][" + second + "]"));
        } else {
          // the string-level API creates its analysers per call: two calls must agree
          api::RSFormJA dummy = api::RSFormJA::FromData(RSForm{});
          // (an escaping exception is a C04 matter; here both calls must behave alike)
          auto call = [](const std::string& t, rslang::Syntax h) -> std::string {
            try { return api::ParseExpression(t, h); } catch (const std::exception& e) { return std::string("exception:") + typeid(e).name(); }
          };
          const auto a = call(text, hint);
          (void)call(sub.pick(inputs()), kHints[sub.range(0, 2)]);
          const auto b = call(text, hint);
          emit("c18 api " + tag, a == b ? "1" : "0");
        }
      }
    }, "c18 crash", 120);
  }
  return 0;
}
