// C10 harness: JSON save/load of schemas and models is lossless and stable.
//  * leaf codecs (TrackingFlags, TextInterpretation, EntityTranslation): the real document is
//    compared with the Lean codec model, the decoded value with the original;
//  * schemas and models reached by editing histories: save -> load -> observable content equal;
//    save again -> identical document; embedded analysis equal.
#include "common.hpp"
#include "frag.hpp"
#include "verif_seed.hpp"
#include "ccl/semantic/RSForm.h"
#include "ccl/semantic/RSModel.h"
#include "ccl/tools/JSON.h"
#include "ccl/api/RSFormJA.h"
#include <algorithm>
#include <map>

using namespace ccl;
using namespace ccl::semantic;
using vh::emit;
using JSON = nlohmann::ordered_json;

static std::string nosp(std::string s) { for (auto& c : s) if (c == ' ' || c == '\n' || c == '\t') c = '_'; return s; }

// ---------------------------------------------------------------- leaf codecs
static void leafCodecs(vh::Rng& rng, int n) {
  for (int i = 0; i < n; ++i) {
    {
      TrackingFlags f{ rng.chance(1, 2), rng.chance(1, 2), rng.chance(1, 2), rng.chance(1, 2) };
      const JSON j = f;
      TrackingFlags g{}; j.get_to(g);
      auto b = [](bool x) { return x ? "1" : "0"; };
      emit(std::string("c10 flags ") + b(f.allowEdit) + " " + b(f.term) + " " + b(f.definition) + " " + b(f.convention),
           j.dump() + " " + (f == g ? "1" : "0"));
    }
    {
      // text interpretation: contiguous keys 1..n, or keys with gaps
      const bool gap = rng.chance(1, 4);
      TextInterpretation t; std::string keys, arg;
      const int m = rng.range(0, 4);
      int k = 0;
      for (int q = 0; q < m; ++q) {
        k += (gap && rng.chance(1, 2)) ? 2 : 1;
        const std::string text = "t" + std::to_string(rng.range(0, 9));
        t.SetInterpretantFor(k, text);
        if (!arg.empty()) arg += ",";
        arg += std::to_string(k) + ":" + text;
      }
      bool contiguous = true; int expect = 1;
      for (const auto& [key, val] : t) { if (key != expect++) contiguous = false; }
      const JSON j = t;
      TextInterpretation u; j.get_to(u);
      std::string back;
      for (const auto& [key, val] : u) { if (!back.empty()) back += ","; back += std::to_string(key) + ":" + val; }
      emit(std::string("c10 text ") + (contiguous ? "contig " : "gap ") + (arg.empty() ? "-" : arg), j.dump() + " " + (back.empty() ? "-" : back));
    }
    {
      EntityTranslation t; std::string arg;
      const int m = rng.range(0, 4);
      for (int q = 0; q < m; ++q) t.Insert(static_cast<uint32_t>(rng.range(1, 9)), static_cast<uint32_t>(rng.range(1, 9)));
      for (const auto& [a, b] : t) { if (!arg.empty()) arg += ","; arg += std::to_string(a) + ">" + std::to_string(b); }
      const JSON j = t;
      EntityTranslation u; j.get_to(u);
      emit("c10 tr " + (arg.empty() ? std::string("-") : arg), j.dump() + " " + (t == u ? "1" : "0"));
    }
  }
}

// ---------------------------------------------------------------- observable content
static std::string formContent(const RSForm& f) {
  std::string out = f.title + "|" + f.alias + "|" + f.comment + "\n";
  for (const auto uid : f.List()) {
    const auto& rs = f.GetRS(uid); const auto& tx = f.GetText(uid);
    out += std::to_string(uid) + ";" + rs.alias + ";" + std::to_string(static_cast<int>(rs.type)) + ";" + rs.definition + ";" + rs.convention + ";" +
      tx.term.Text().Raw() + ";" + tx.definition.Raw() + ";forms=";
    std::map<std::string, std::string> forms;
    for (const auto& [m, text] : tx.term.GetAllManual()) forms[m.ToString()] = text;
    for (const auto& [m, text] : forms) out += m + ":" + text + ",";
    if (const auto* fl = f.Mods()(uid); fl != nullptr)
      out += ";track=" + std::to_string(fl->allowEdit) + std::to_string(fl->term) + std::to_string(fl->definition) + std::to_string(fl->convention);
    out += "\n";
  }
  return out;
}
template<class T> static std::string analysisContent(const T& f) {
  std::string out;
  for (const auto uid : f.List()) {
    const auto& info = f.GetParse(uid);
    out += std::to_string(uid) + ":" + std::to_string(static_cast<int>(info.status)) + ":";
    if (info.exprType.has_value()) { if (const auto* t = info.Typification(); t != nullptr) out += t->ToString(); else out += "LOGIC"; }
    out += ":vc=" + std::to_string(static_cast<int>(info.valueClass)) + ":args=";
    if (info.arguments.has_value()) for (const auto& a : info.arguments.value()) out += a.name + "/" + a.type.ToString() + ",";
    out += ":" + (info.ast ? rslang::AST2String::Apply(*info.ast) : std::string("-")) + "\n";
  }
  return out;
}
static std::string modelContent(const RSModel& m) {
  std::string out = m.title + "|" + m.alias + "|" + m.comment + "\n";
  for (const auto uid : m.List()) {
    const auto& rs = m.GetRS(uid); const auto& tx = m.GetText(uid);
    out += std::to_string(uid) + ";" + rs.alias + ";" + std::to_string(static_cast<int>(rs.type)) + ";" + rs.definition + ";" + rs.convention + ";" +
      tx.term.Text().Raw() + ";" + tx.definition.Raw() + ";calc=" + (m.Calculations().WasCalculated(uid) ? "1" : "0") + ";data=";
    if (const auto d = m.Values().SDataFor(uid); d.has_value()) out += d->ToString(); else out += "-";
    out += ";stmt=";
    if (const auto s = m.Values().StatementFor(uid); s.has_value()) out += (s.value() ? "T" : "F"); else out += "-";
    out += ";text=";
    if (const auto* t = m.Values().TextFor(uid); t != nullptr) for (const auto& [k, v] : *t) out += std::to_string(k) + ":" + v + ",";
    out += "\n";
  }
  return out;
}
static std::string firstDiff(const std::string& a, const std::string& b) {
  std::istringstream sa(a), sb(b); std::string la, lb;
  while (true) {
    const bool ga = static_cast<bool>(std::getline(sa, la)), gb = static_cast<bool>(std::getline(sb, lb));
    if (!ga && !gb) return "";
    if (!ga || !gb || la != lb) return nosp("[" + (ga ? la : std::string("<end>")) + "]vs[" + (gb ? lb : std::string("<end>")) + "]");
  }
}

static const std::string IN = "\xE2\x88\x88", XI = "\xCE\xBE", TIMES = "\xC3\x97";
static const std::vector<std::string>& defsPool() {
  static const std::vector<std::string> defs = {
    "X1", "X1" + UNION + "X1", BOOL + "(X1)", "X1" + TIMES + "X1", "D1", "D2", "D1" + UNION + "D2", "D1\\D2", "Pr1(S1)", "red(S2)",
    "D{" + XI + IN + "X1 | " + XI + "=" + XI + "}", "F1[X1]", "F1[D1]", "card(D1)", "[\xCE\xB1" + IN + BOOL + "(X1)] \xCE\xB1" + UNION + "\xCE\xB1",
    "1=1", "card(X1)>1", "D1=D2", "bad(", "X9", "bool(D1)", "debool({D1})", "  X1   " + UNION + "\nX1", "D9" + UNION + "X1" };
  return defs;
}

static void formCase(vh::Rng& rng) {
  RSForm f;
  f.title = rng.chance(1, 2) ? "Schema \xD0\xA2\xD0\xB5\xD1\x81\xD1\x82 \"q\"" : ""; f.alias = "KS1"; f.comment = rng.chance(1, 2) ? "line1\nline2 \\ end" : "";
  const std::vector<CstType> kinds = { CstType::base, CstType::constant, CstType::structured, CstType::axiom, CstType::term, CstType::term,
                                       CstType::function, CstType::theorem, CstType::predicate };
  const std::vector<std::string> texts = { "", "plain \xD1\x82\xD0\xB5\xD0\xBA\xD1\x81\xD1\x82", "@{X1|nomn,sing}", "x @{D1|nomn,sing} y", "@{D2|datv,plur}", "@{-1|stem}", "@{X9|nomn,sing}", "q\"uote\\" };
  std::vector<uint32_t> known;
  auto pick = [&]() -> uint32_t { return (!known.empty() && rng.chance(9, 10)) ? rng.pick(known) : 5U; };
  const int L = rng.range(3, 18);
  for (int i = 0; i < L; ++i) {
    const int r = rng.range(0, 99);
    if (r < 35 || known.size() < 3) {
      const auto t = known.empty() ? CstType::base : rng.pick(kinds);
      std::string def;
      if (t == CstType::structured) def = BOOL + "(X1" + TIMES + "X1)";
      else if (!IsBaseSet(t)) def = rng.pick(defsPool());
      known.push_back(f.Emplace(t, def));
    } else if (r < 42) f.Erase(pick());
    else if (r < 55) f.SetExpressionFor(pick(), rng.pick(defsPool()));
    else if (r < 63) f.SetTermFor(pick(), rng.pick(texts));
    else if (r < 70) f.SetTermFormFor(pick(), rng.pick(texts), lang::Morphology{ rng.chance(1, 2) ? "datv,sing" : "gent,plur" });
    else if (r < 78) f.SetDefinitionFor(pick(), rng.pick(texts));
    else if (r < 84) f.SetConventionFor(pick(), rng.chance(1, 2) ? "conv X1" : "\xD0\xBA\xD0\xBE\xD0\xBD\xD0\xB2");
    else if (r < 90) f.Mods().Track(pick(), TrackingFlags{ rng.chance(1, 2), rng.chance(1, 2), rng.chance(1, 2), rng.chance(1, 2) });
    else if (r < 94) { const auto uid = pick(); if (f.Contains(uid)) { static const char letters[] = "XCSADFTP"; std::string nm(1, letters[rng.range(0, 7)]); nm += std::to_string(rng.range(1, 4)); f.SetAliasFor(uid, nm, rng.chance(1, 2)); } }
    else if (r < 97) { const int n = static_cast<int>(f.List().size()); auto it = f.List().begin(); const int pos = rng.range(0, n); for (int k = 0; k < pos; ++k) ++it; f.MoveBefore(pick(), it); }
    else f.ResetAliases();
  }
  const JSON j1 = f;
  const auto text1 = j1.dump(4);
  RSForm g;
  JSON::parse(text1).get_to(g);
  emit("c10 formrt", [&] { const auto d = firstDiff(formContent(f), formContent(g)); return d.empty() ? std::string("1") : "0:" + d; }());
  emit("c10 formanalysis", [&] { const auto d = firstDiff(analysisContent(f), analysisContent(g)); return d.empty() ? std::string("1") : "0:" + d; }());
  // resolved term / definition texts are only well defined when term references are acyclic
  const bool acyclicTexts = !f.Texts().TermGraph().HasLoop() && !f.Texts().DefGraph().HasLoop();
  const JSON j2 = g;
  if (acyclicTexts) emit("c10 formstable", text1 == j2.dump(4) ? "1" : "0:" + firstDiff(text1, j2.dump(4)));
  // the string-level API
  {
    auto ja = api::RSFormJA::FromJSON(text1);
    const bool same = firstDiff(formContent(f), formContent(ja.data())).empty();
    const bool stable = !acyclicTexts || ja.ToJSON() == api::RSFormJA::FromJSON(ja.ToJSON()).ToJSON();
    emit("c10 formapi", same && stable ? "1" : std::string("0:") + (same ? "unstable" : "content"));
  }
}

static void modelCase(vh::Rng& rng, bool gapKeys) {
  RSModel m;
  m.title = "model"; m.alias = "M1";
  std::vector<uint32_t> bases, structs, terms;
  bases.push_back(m.Emplace(CstType::base));
  if (rng.chance(1, 2)) bases.push_back(m.Emplace(CstType::base));
  if (rng.chance(2, 3)) structs.push_back(m.Emplace(CstType::structured, BOOL + "(X1" + TIMES + "X1)"));
  if (rng.chance(1, 2)) structs.push_back(m.Emplace(CstType::structured, BOOL + "(" + BOOL + "(X1))"));
  const int nt = rng.range(1, 5);
  for (int i = 0; i < nt; ++i) terms.push_back(m.Emplace(rng.chance(1, 5) ? CstType::axiom : CstType::term, rng.pick(defsPool())));
  for (const auto b : bases) {
    if (gapKeys) {
      TextInterpretation t; t.SetInterpretantFor(1, "a"); t.SetInterpretantFor(3, "c");
      m.Values().SetBasicText(b, t);
    } else {
      const int n = rng.range(0, 3);
      for (int i = 0; i < n; ++i) m.Values().AddBasicElement(b, "el" + std::to_string(i));
    }
  }
  for (const auto s : structs) {
    if (m.GetParse(s).Typification() == nullptr) continue;
    const auto& typ = *m.GetParse(s).Typification();
    auto data = object::Factory::EmptySet();
    const int n = rng.range(0, 3);
    const int top = gapKeys ? 1 : 3;
    for (int k = 0; k < n; ++k) {
      if (typ.B().Base().IsTuple()) data.ModifyB().AddElement(object::Factory::Tuple({ object::Factory::Val(rng.range(1, top)), object::Factory::Val(rng.range(1, top)) }));
      else { auto inner = object::Factory::EmptySet(); const int q = rng.range(0, 2); for (int z = 0; z < q; ++z) inner.ModifyB().AddElement(object::Factory::Val(rng.range(1, top))); data.ModifyB().AddElement(inner); }
    }
    m.Values().SetStructureData(s, data);
  }
  if (rng.chance(2, 3)) m.Calculations().RecalculateAll(); else for (const auto t : terms) if (rng.chance(1, 2)) m.Calculations().Calculate(t);
  const JSON j1 = m;
  const auto text1 = j1.dump(4);
  RSModel g;
  JSON::parse(text1).get_to(g);
  const std::string tag = gapKeys ? "gap" : "contig";
  emit("c10 modelrt " + tag, [&] { const auto d = firstDiff(modelContent(m), modelContent(g)); return d.empty() ? std::string("1") : "0:" + d; }());
  emit("c10 modelanalysis " + tag, [&] { const auto d = firstDiff(analysisContent(m), analysisContent(g)); return d.empty() ? std::string("1") : "0:" + d; }());
  const JSON j2 = g;
  emit("c10 modelstable " + tag, text1 == j2.dump(4) ? "1" : "0:" + firstDiff(text1, j2.dump(4)));
}

int main() {
  vh::Rng rng(vh::seedFromEnv());
  const bool deep = vh::thorough();
  leafCodecs(rng, deep ? 20000 : 2000);
  const int NF = deep ? 3000 : 300, NM = deep ? 3000 : 300;
  for (int i = 0; i < NF; ++i) { const auto cs = rng.next(); vh::Rng sub(cs); vh::forkedEmit([&] { ccl::verif::Seed(static_cast<uint32_t>(cs)); formCase(sub); }, "c10 crash"); }
  for (int i = 0; i < NM; ++i) { const auto cs = rng.next(); vh::Rng sub(cs); vh::forkedEmit([&] { ccl::verif::Seed(static_cast<uint32_t>(cs)); modelCase(sub, i % 10 == 9); }, "c10 crash"); }
  return 0;
}
