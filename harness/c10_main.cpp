// C10 harness: JSON save/load of schemas and models is lossless and stable.
//  * leaf codecs (TrackingFlags, TextInterpretation, EntityTranslation): the real document is
//    compared with the Lean codec model, the decoded value with the original;
//  * schemas and models reached by editing histories: save -> load -> observable content equal;
//    save again -> identical document; embedded analysis equal.
#include "common.hpp"
#include "frag.hpp"
#include "verif_seed.hpp"
#include "ccl/semantic/RSForm.h"
#include "ccl/semantic/RSModel.h"
#include "ccl/tools/JSON.h"
#include "ccl/api/RSFormJA.h"
#include "ccl/oss/OSSchema.h"
#include "ccl/ops/EquationOptions.h"
#include <set>
#include <algorithm>
#include <map>

using namespace ccl;
using namespace ccl::semantic;
using vh::emit;
using JSON = nlohmann::ordered_json;

static std::string nosp(std::string s) { for (auto& c : s) if (c == ' ' || c == '\n' || c == '\t') c = '_'; return s; }

// ---------------------------------------------------------------- leaf codecs
static void leafCodecs(vh::Rng& rng, int n) {
  for (int i = 0; i < n; ++i) {
    {
      TrackingFlags f{ rng.chance(1, 2), rng.chance(1, 2), rng.chance(1, 2), rng.chance(1, 2) };
      const JSON j = f;
      TrackingFlags g{}; j.get_to(g);
      auto b = [](bool x) { return x ? "1" : "0"; };
      emit(std::string("c10 flags ") + b(f.allowEdit) + " " + b(f.term) + " " + b(f.definition) + " " + b(f.convention),
           j.dump() + " " + (f == g ? "1" : "0"));
    }
    {
      // text interpretation: contiguous keys 1..n, or keys with gaps
      const bool gap = rng.chance(1, 4);
      TextInterpretation t; std::string keys, arg;
      const int m = rng.range(0, 4);
      int k = 0;
      for (int q = 0; q < m; ++q) {
        k += (gap && rng.chance(1, 2)) ? 2 : 1;
        const std::string text = "t" + std::to_string(rng.range(0, 9));
        t.SetInterpretantFor(k, text);
        if (!arg.empty()) arg += ",";
        arg += std::to_string(k) + ":" + text;
      }
      bool contiguous = true; int expect = 1;
      for (const auto& [key, val] : t) { if (key != expect++) contiguous = false; }
      const JSON j = t;
      TextInterpretation u; j.get_to(u);
      std::string back;
      for (const auto& [key, val] : u) { if (!back.empty()) back += ","; back += std::to_string(key) + ":" + val; }
      emit(std::string("c10 text ") + (contiguous ? "contig " : "gap ") + (arg.empty() ? "-" : arg), j.dump() + " " + (back.empty() ? "-" : back));
    }
    {
      EntityTranslation t; std::string arg;
      const int m = rng.range(0, 4);
      for (int q = 0; q < m; ++q) t.Insert(static_cast<uint32_t>(rng.range(1, 9)), static_cast<uint32_t>(rng.range(1, 9)));
      for (const auto& [a, b] : t) { if (!arg.empty()) arg += ","; arg += std::to_string(a) + ">" + std::to_string(b); }
      const JSON j = t;
      EntityTranslation u; j.get_to(u);
      emit("c10 tr " + (arg.empty() ? std::string("-") : arg), j.dump() + " " + (t == u ? "1" : "0"));
    }
  }
}

// ---------------------------------------------------------------- observable content
static std::string formContent(const RSForm& f) {
  std::string out = f.title + "|" + f.alias + "|" + f.comment + "\n";
  for (const auto uid : f.List()) {
    const auto& rs = f.GetRS(uid); const auto& tx = f.GetText(uid);
    out += std::to_string(uid) + ";" + rs.alias + ";" + std::to_string(static_cast<int>(rs.type)) + ";" + rs.definition + ";" + rs.convention + ";" +
      tx.term.Text().Raw() + ";" + tx.definition.Raw() + ";forms=";
    std::map<std::string, std::string> forms;
    for (const auto& [m, text] : tx.term.GetAllManual()) forms[m.ToString()] = text;
    for (const auto& [m, text] : forms) out += m + ":" + text + ",";
    if (const auto* fl = f.Mods()(uid); fl != nullptr)
      out += ";track=" + std::to_string(fl->allowEdit) + std::to_string(fl->term) + std::to_string(fl->definition) + std::to_string(fl->convention);
    out += "\n";
  }
  return out;
}
template<class T> static std::string analysisContent(const T& f) {
  std::string out;
  for (const auto uid : f.List()) {
    const auto& info = f.GetParse(uid);
    out += std::to_string(uid) + ":" + std::to_string(static_cast<int>(info.status)) + ":";
    if (info.exprType.has_value()) { if (const auto* t = info.Typification(); t != nullptr) out += t->ToString(); else out += "LOGIC"; }
    out += ":vc=" + std::to_string(static_cast<int>(info.valueClass)) + ":args=";
    if (info.arguments.has_value()) for (const auto& a : info.arguments.value()) out += a.name + "/" + a.type.ToString() + ",";
    out += ":" + (info.ast ? rslang::AST2String::Apply(*info.ast) : std::string("-")) + "\n";
  }
  return out;
}
static std::string modelContent(const RSModel& m) {
  std::string out = m.title + "|" + m.alias + "|" + m.comment + "\n";
  for (const auto uid : m.List()) {
    const auto& rs = m.GetRS(uid); const auto& tx = m.GetText(uid);
    out += std::to_string(uid) + ";" + rs.alias + ";" + std::to_string(static_cast<int>(rs.type)) + ";" + rs.definition + ";" + rs.convention + ";" +
      tx.term.Text().Raw() + ";" + tx.definition.Raw() + ";calc=" + (m.Calculations().WasCalculated(uid) ? "1" : "0") + ";data=";
    if (const auto d = m.Values().SDataFor(uid); d.has_value()) out += d->ToString(); else out += "-";
    out += ";stmt=";
    if (const auto s = m.Values().StatementFor(uid); s.has_value()) out += (s.value() ? "T" : "F"); else out += "-";
    out += ";text=";
    if (const auto* t = m.Values().TextFor(uid); t != nullptr) for (const auto& [k, v] : *t) out += std::to_string(k) + ":" + v + ",";
    out += "\n";
  }
  return out;
}
static std::string firstDiff(const std::string& a, const std::string& b) {
  std::istringstream sa(a), sb(b); std::string la, lb;
  while (true) {
    const bool ga = static_cast<bool>(std::getline(sa, la)), gb = static_cast<bool>(std::getline(sb, lb));
    if (!ga && !gb) return "";
    if (!ga || !gb || la != lb) return nosp("[" + (ga ? la : std::string("<end>")) + "]vs[" + (gb ? lb : std::string("<end>")) + "]");
  }
}

// ---------------------------------------------------------------- document level (Model/JsonDoc.lean)
// The abstract content of the real object (read through its accessors, field by field) is sent in a
// line-safe wire form next to a canonical rendering of the REAL document tree; the driver renders
// `toJson content` the same way (op docsave). Op docload sends a (possibly mutated) document tree;
// the real loader's result (observable fields) is compared with the model's `fromJson`.
//   tree rendering: n | t | f | i<decimal> | d<float> | s<hex> | [v,v] | {<hexkey>:v,...}
//   header:  <hex title>,<hex alias>,<hex comment>
//   items:   # (none) | records joined by ';', fields joined by ',':
//            uid,kind code,alias,convention,term raw,term resolved,forms,formal,def raw,def resolved,
//            status,value class,typification,syntax tree,args,track       (strings in hex)
//            forms/args: # | <hex>:<hex> joined by '+';  track: - | four bits
//   data:    # | entries joined by ';', fields joined by '|': uid|calculated|type|value|texts|statement
//            type/value in the C16 syntax ('-' = none), texts: - (null) | # (empty) | key:<hex> joined by '+'
static std::string render(const JSON& j) {
  if (j.is_null()) return "n";
  if (j.is_boolean()) return j.get<bool>() ? "t" : "f";
  if (j.is_number_integer()) return "i" + std::to_string(j.get<int64_t>());
  if (j.is_number()) return "d" + j.dump();
  if (j.is_string()) return "s" + vh::hex(j.get<std::string>());
  std::string out;
  if (j.is_array()) {
    out = "[";
    bool first = true;
    for (const auto& el : j) { if (!first) out += ","; first = false; out += render(el); }
    return out + "]";
  }
  out = "{";
  bool first = true;
  for (auto it = j.begin(); it != j.end(); ++it) { if (!first) out += ","; first = false; out += vh::hex(it.key()) + ":" + render(it.value()); }
  return out + "}";
}
static std::string tyWire(const rslang::Typification& t) {
  if (t.IsElement()) return t.E().baseID;
  if (t.IsCollection()) return "B(" + tyWire(t.B().Base()) + ")";
  std::string s = "T(";
  for (rslang::Index i = 0; i < t.T().Arity(); ++i) { if (i) s += ","; s += tyWire(t.T().Component(static_cast<rslang::Index>(rslang::Typification::PR_START + i))); }
  return s + ")";
}
static std::string valWire(const object::StructuredData& v) {
  if (v.IsElement()) return std::to_string(v.E().Value());
  if (v.IsTuple()) {
    std::string s = "(";
    for (rslang::Index i = 0; i < v.T().Arity(); ++i) { if (i) s += ","; s += valWire(v.T().Component(static_cast<rslang::Index>(rslang::Typification::PR_START + i))); }
    return s + ")";
  }
  std::string s = "{"; bool first = true;
  for (const auto& el : v.B()) { if (!first) s += ","; first = false; s += valWire(el); }
  return s + "}";
}
template<class T> static std::string hdrWire(const T& f) { return vh::hex(f.title) + "," + vh::hex(f.alias) + "," + vh::hex(f.comment); }
static std::string itemsWire(const RSCore& core, const rsModificationFacet* mods, bool obsOnly) {
  std::string out;
  for (const auto uid : core.List()) {
    const auto& rs = core.GetRS(uid); const auto& tx = core.GetText(uid); const auto& info = core.GetParse(uid);
    if (!out.empty()) out += ";";
    out += std::to_string(uid) + "," + std::to_string(static_cast<int>(rs.type)) + "," + vh::hex(rs.alias) + "," + vh::hex(rs.convention) + "," +
      vh::hex(tx.term.Text().Raw()) + "," + (obsOnly ? std::string("-") : vh::hex(tx.term.Text().Str())) + ",";
    std::map<std::string, std::string> forms;
    for (const auto& [m, text] : tx.term.GetAllManual()) forms[m.ToString()] = text;
    if (forms.empty()) out += "#";
    else { bool first = true; for (const auto& [tags, text] : forms) { if (!first) out += "+"; first = false; out += vh::hex(tags) + ":" + vh::hex(text); } }
    out += "," + vh::hex(rs.definition) + "," + vh::hex(tx.definition.Raw()) + "," + (obsOnly ? std::string("-") : vh::hex(tx.definition.Str())) + ",";
    if (obsOnly) out += "0,0,-,-,#";
    else {
      out += std::to_string(static_cast<int>(info.status)) + "," + std::to_string(static_cast<int>(info.valueClass)) + ",";
      out += (info.Typification() != nullptr ? vh::hex(info.Typification()->ToString()) : std::string("-")) + ",";
      const auto* tree = core.RSLang().ASTContext()(rs.alias);
      out += (tree != nullptr ? vh::hex(rslang::AST2String::Apply(*tree)) : std::string("-")) + ",";
      if (!info.arguments.has_value() || info.arguments->empty()) out += "#";
      else { bool first = true; for (const auto& a : info.arguments.value()) { if (!first) out += "+"; first = false; out += vh::hex(a.name) + ":" + vh::hex(a.type.ToString()); } }
    }
    out += ",";
    const TrackingFlags* fl = mods != nullptr ? (*mods)(uid) : nullptr;
    if (fl == nullptr) out += "-";
    else out += std::string(fl->allowEdit ? "1" : "0") + (fl->term ? "1" : "0") + (fl->definition ? "1" : "0") + (fl->convention ? "1" : "0");
  }
  return out.empty() ? "#" : out;
}
static std::string dataWire(const RSModel& m) {
  std::string out;
  for (const auto uid : m.Core()) {
    if (!out.empty()) out += ";";
    out += std::to_string(uid) + "|" + (m.Calculations().WasCalculated(uid) ? "1" : "0") + "|";
    const auto* typif = m.GetParse(uid).Typification();
    out += (typif != nullptr ? tyWire(*typif) : std::string("-")) + "|";
    if (const auto d = m.Values().SDataFor(uid); d.has_value()) out += valWire(d.value()); else out += "-";
    out += "|";
    if (const auto* t = m.Values().TextFor(uid); t == nullptr) out += "-";
    else if (t->size() == 0) out += "#";
    else { bool first = true; for (const auto& [k, v] : *t) { if (!first) out += "+"; first = false; out += std::to_string(k) + ":" + vh::hex(v); } }
    out += "|";
    if (const auto s = m.Values().StatementFor(uid); s.has_value()) out += (s.value() ? "1" : "0"); else out += "-";
  }
  return out.empty() ? "#" : out;
}
// what the loader recomputed and the data part depends on: uid|verified|typification
static std::string analysisWire(const RSModel& m) {
  std::string out;
  for (const auto uid : m.Core()) {
    if (!out.empty()) out += ";";
    const auto& info = m.GetParse(uid);
    out += std::to_string(uid) + "|" + (info.status == ParsingStatus::VERIFIED ? "1" : "0") + "|" + (info.Typification() != nullptr ? tyWire(*info.Typification()) : std::string("-"));
  }
  return out.empty() ? "#" : out;
}
static void shuffleArray(vh::Rng& rng, JSON& arr) {
  if (!arr.is_array() || arr.size() < 2) return;
  std::vector<JSON> v(arr.begin(), arr.end());
  for (size_t i = v.size() - 1; i > 0; --i) std::swap(v[i], v[rng.below(static_cast<uint32_t>(i + 1))]);
  arr = JSON::array();
  for (auto& x : v) arr += std::move(x);
}
// documents the writer does not produce: optional keys missing, items out of kind order, word forms
// with unnormalised / unknown / repeated tags, tracking of an unknown uid, a required key missing
static JSON mutateItems(vh::Rng& rng, JSON doc) {
  if (rng.chance(1, 3)) { static const char* keys[] = { "title", "alias", "comment", "tracking" }; doc.erase(keys[rng.range(0, 3)]); }
  if (doc.contains("items") && rng.chance(1, 2)) shuffleArray(rng, doc["items"]);
  if (doc.contains("items")) for (auto& item : doc["items"]) {
    if (rng.chance(1, 6)) item.erase("convention");
    if (rng.chance(1, 8)) item.erase("term");
    if (rng.chance(1, 8)) item.erase("definition");
    if (rng.chance(1, 8)) item.erase("parse");
    if (item.contains("term")) {
      if (rng.chance(1, 6)) item["term"].erase("resolved");
      if (rng.chance(1, 8)) item["term"].erase("forms");
      if (item["term"].contains("forms") && rng.chance(1, 4)) {
        static const std::vector<std::string> tagPool = { "datv,sing", " sing , datv ", "sing,datv", "plur,gent,plur", "xxxx,nomn", "", "nomn", "NOUN,femn,sing" };
        const int n = rng.range(1, 3);
        for (int q = 0; q < n; ++q) item["term"]["forms"] += JSON{ {"text", "f" + std::to_string(rng.range(0, 9))}, {"tags", rng.pick(tagPool)} };
      }
    }
    if (item.contains("definition")) {
      if (rng.chance(1, 8)) item["definition"].erase("formal");
      if (rng.chance(1, 8)) item["definition"].erase("text");
      if (item["definition"].contains("text") && rng.chance(1, 8)) item["definition"]["text"].erase("resolved");
    }
    if (rng.chance(1, 60)) { static const char* req[] = { "alias", "entityUID", "cstType" }; item.erase(req[rng.range(0, 2)]); }
    if (item.contains("term") && rng.chance(1, 60)) item["term"].erase("raw");
  }
  if (doc.contains("tracking") && rng.chance(1, 4)) doc["tracking"] += JSON{ {"entityUID", 424242}, {"flags", TrackingFlags{ true, false, true, false }} };
  if (doc.contains("tracking") && rng.chance(1, 4)) shuffleArray(rng, doc["tracking"]);
  return doc;
}
static void docLoadForm(const JSON& doc) {
  std::string impl;
  try { RSForm g; doc.get_to(g); impl = hdrWire(g) + " " + itemsWire(g.Core(), &g.Mods(), true); }
  catch (const std::exception&) { impl = "none"; }
  emit("c10 docload form " + render(doc), impl);
}
static JSON mutateData(vh::Rng& rng, JSON doc) {
  if (!doc.contains("data")) return doc;
  auto& data = doc["data"];
  if (rng.chance(1, 2)) shuffleArray(rng, data);
  JSON kept = JSON::array();
  for (auto& e : data) {
    if (rng.chance(1, 8)) continue;                       // entry missing
    if (rng.chance(1, 6)) e.erase("value");
    if (rng.chance(1, 6)) e.erase("texts");
    if (rng.chance(1, 8)) e["wasCalculated"] = !e["wasCalculated"].get<bool>();
    // texts on any kind of constituent (ignored unless it is a base set), sometimes not even an array
    // (a non-array only where it is ignored: iterating a non-array JSON value is outside the modelled class)
    if (!e.contains("texts") && rng.chance(1, 6)) {
      bool baseSet = true;
      if (doc.contains("items") && e.contains("entityUID")) for (const auto& item : doc["items"])
        if (item.contains("entityUID") && item["entityUID"] == e["entityUID"] && item.contains("cstType"))
          baseSet = item["cstType"] == "basic" || item["cstType"] == "constant";
      if (!baseSet && rng.chance(1, 3)) e["texts"] = "no array"; else e["texts"] = JSON::array({ "t1", "t2" });
    }
    if (e.contains("value") && e["value"].is_array() && !e["value"].empty() && rng.chance(1, 6)) {   // damaged table
      auto& tbl = e["value"];
      if (rng.chance(1, 2)) tbl += JSON::array({ 1, 1 }); else if (!tbl[0].empty()) tbl[0][0] = tbl[0][0].get<int>() + 1;
    }
    kept += e;
    if (rng.chance(1, 10)) { JSON again = e; again["wasCalculated"] = false; again.erase("texts"); kept += again; }   // repeated entry
  }
  data = std::move(kept);
  if (rng.chance(1, 40)) { if (!data.empty()) data[0].erase("wasCalculated"); }
  // an element for a uid the schema does not have is skipped, whatever else it contains
  if (rng.chance(1, 8)) {
    JSON ghost{ {"entityUID", 424242} };
    if (rng.chance(1, 2)) ghost["wasCalculated"] = rng.chance(1, 2);
    if (rng.chance(1, 2)) ghost["value"] = rng.chance(1, 2) ? JSON("?") : JSON::array({ JSON::array({ 1 }) });
    if (rng.chance(1, 3)) ghost["texts"] = 7;
    if (rng.chance(1, 2) || data.empty()) data += ghost; else data.insert(data.begin(), ghost);
  }
  return doc;
}
static void docLoadModel(const JSON& doc) {
  std::string impl, analysis = "#";
  try {
    RSModel g; doc.get_to(g);
    analysis = analysisWire(g);
    impl = hdrWire(g) + " " + itemsWire(g.Core(), nullptr, true) + " " + dataWire(g);
  } catch (const std::exception&) { impl = "none"; }
  emit("c10 docload model " + analysis + " " + render(doc), impl);
}

static const std::string IN = "\xE2\x88\x88", XI = "\xCE\xBE", TIMES = "\xC3\x97";
static const std::vector<std::string>& defsPool() {
  static const std::vector<std::string> defs = {
    "X1", "X1" + UNION + "X1", BOOL + "(X1)", "X1" + TIMES + "X1", "D1", "D2", "D1" + UNION + "D2", "D1\\D2", "Pr1(S1)", "red(S2)",
    "D{" + XI + IN + "X1 | " + XI + "=" + XI + "}", "F1[X1]", "F1[D1]", "card(D1)", "[\xCE\xB1" + IN + BOOL + "(X1)] \xCE\xB1" + UNION + "\xCE\xB1",
    "1=1", "card(X1)>1", "D1=D2", "bad(", "X9", "bool(D1)", "debool({D1})", "  X1   " + UNION + "\nX1", "D9" + UNION + "X1" };
  return defs;
}

static void formCase(vh::Rng& rng) {
  RSForm f;
  f.title = rng.chance(1, 2) ? "Schema \xD0\xA2\xD0\xB5\xD1\x81\xD1\x82 \"q\"" : ""; f.alias = "KS1"; f.comment = rng.chance(1, 2) ? "line1\nline2 \\ end" : "";
  const std::vector<CstType> kinds = { CstType::base, CstType::constant, CstType::structured, CstType::axiom, CstType::term, CstType::term,
                                       CstType::function, CstType::theorem, CstType::predicate };
  const std::vector<std::string> texts = { "", "plain \xD1\x82\xD0\xB5\xD0\xBA\xD1\x81\xD1\x82", "@{X1|nomn,sing}", "x @{D1|nomn,sing} y", "@{D2|datv,plur}", "@{-1|stem}", "@{X9|nomn,sing}", "q\"uote\\" };
  std::vector<uint32_t> known;
  auto pick = [&]() -> uint32_t { return (!known.empty() && rng.chance(9, 10)) ? rng.pick(known) : 5U; };
  const int L = rng.range(3, 18);
  for (int i = 0; i < L; ++i) {
    const int r = rng.range(0, 99);
    if (r < 35 || known.size() < 3) {
      const auto t = known.empty() ? CstType::base : rng.pick(kinds);
      std::string def;
      if (t == CstType::structured) def = BOOL + "(X1" + TIMES + "X1)";
      else if (!IsBaseSet(t)) def = rng.pick(defsPool());
      known.push_back(f.Emplace(t, def));
    } else if (r < 42) f.Erase(pick());
    else if (r < 55) f.SetExpressionFor(pick(), rng.pick(defsPool()));
    else if (r < 63) f.SetTermFor(pick(), rng.pick(texts));
    else if (r < 70) {
      // several manual forms per term, often spelled the same under different tags
      static const std::vector<std::string> tagSets = { "datv,sing", "gent,plur", "accs,plur", "nomn,plur", "ablt,sing", "gent,sing" };
      static const std::vector<std::string> spellings = { "forma", "formy", "form" };
      const auto uid = pick();
      const int n = rng.range(1, 3);
      for (int q = 0; q < n; ++q)
        f.SetTermFormFor(uid, rng.chance(2, 3) ? rng.pick(spellings) : rng.pick(texts), lang::Morphology{ rng.pick(tagSets) });
    }
    else if (r < 78) f.SetDefinitionFor(pick(), rng.pick(texts));
    else if (r < 84) f.SetConventionFor(pick(), rng.chance(1, 2) ? "conv X1" : "\xD0\xBA\xD0\xBE\xD0\xBD\xD0\xB2");
    else if (r < 90) f.Mods().Track(pick(), TrackingFlags{ rng.chance(1, 2), rng.chance(1, 2), rng.chance(1, 2), rng.chance(1, 2) });
    else if (r < 94) { const auto uid = pick(); if (f.Contains(uid)) { static const char letters[] = "XCSADFTP"; std::string nm(1, letters[rng.range(0, 7)]); nm += std::to_string(rng.range(1, 4)); f.SetAliasFor(uid, nm, rng.chance(1, 2)); } }
    else if (r < 97) { const int n = static_cast<int>(f.List().size()); auto it = f.List().begin(); const int pos = rng.range(0, n); for (int k = 0; k < pos; ++k) ++it; f.MoveBefore(pick(), it); }
    else f.ResetAliases();
  }
  const JSON j1 = f;
  const auto text1 = j1.dump(4);
  emit("c10 docsave form " + hdrWire(f) + " " + itemsWire(f.Core(), &f.Mods(), false), render(j1));
  docLoadForm(j1);
  docLoadForm(mutateItems(rng, j1));
  RSForm g;
  JSON::parse(text1).get_to(g);
  emit("c10 formrt", [&] { const auto d = firstDiff(formContent(f), formContent(g)); return d.empty() ? std::string("1") : "0:" + d; }());
  emit("c10 formanalysis", [&] { const auto d = firstDiff(analysisContent(f), analysisContent(g)); return d.empty() ? std::string("1") : "0:" + d; }());
  // resolved term / definition texts are only well defined when term references are acyclic
  const bool acyclicTexts = !f.Texts().TermGraph().HasLoop() && !f.Texts().DefGraph().HasLoop();
  const JSON j2 = g;
  if (acyclicTexts) emit("c10 formstable", text1 == j2.dump(4) ? "1" : "0:" + firstDiff(text1, j2.dump(4)));
  // the string-level API
  {
    auto ja = api::RSFormJA::FromJSON(text1);
    const bool same = firstDiff(formContent(f), formContent(ja.data())).empty();
    const bool stable = !acyclicTexts || ja.ToJSON() == api::RSFormJA::FromJSON(ja.ToJSON()).ToJSON();
    emit("c10 formapi", same && stable ? "1" : std::string("0:") + (same ? "unstable" : "content"));
  }
}

static void modelCase(vh::Rng& rng, bool gapKeys) {
  RSModel m;
  m.title = "model"; m.alias = "M1";
  std::vector<uint32_t> bases, structs, terms;
  bases.push_back(m.Emplace(CstType::base));
  if (rng.chance(1, 2)) bases.push_back(m.Emplace(CstType::base));
  if (rng.chance(2, 3)) structs.push_back(m.Emplace(CstType::structured, BOOL + "(X1" + TIMES + "X1)"));
  if (rng.chance(1, 2)) structs.push_back(m.Emplace(CstType::structured, BOOL + "(" + BOOL + "(X1))"));
  const int nt = rng.range(1, 5);
  for (int i = 0; i < nt; ++i) terms.push_back(m.Emplace(rng.chance(1, 5) ? CstType::axiom : CstType::term, rng.pick(defsPool())));
  for (const auto b : bases) {
    if (gapKeys) {
      TextInterpretation t; t.SetInterpretantFor(1, "a"); t.SetInterpretantFor(3, "c");
      m.Values().SetBasicText(b, t);
    } else {
      const int n = rng.range(0, 3);
      for (int i = 0; i < n; ++i) m.Values().AddBasicElement(b, "el" + std::to_string(i));
    }
  }
  for (const auto s : structs) {
    if (m.GetParse(s).Typification() == nullptr) continue;
    const auto& typ = *m.GetParse(s).Typification();
    auto data = object::Factory::EmptySet();
    const int n = rng.range(0, 3);
    const int top = gapKeys ? 1 : 3;
    for (int k = 0; k < n; ++k) {
      if (typ.B().Base().IsTuple()) data.ModifyB().AddElement(object::Factory::Tuple({ object::Factory::Val(rng.range(1, top)), object::Factory::Val(rng.range(1, top)) }));
      else { auto inner = object::Factory::EmptySet(); const int q = rng.range(0, 2); for (int z = 0; z < q; ++z) inner.ModifyB().AddElement(object::Factory::Val(rng.range(1, top))); data.ModifyB().AddElement(inner); }
    }
    m.Values().SetStructureData(s, data);
  }
  if (rng.chance(2, 3)) m.Calculations().RecalculateAll(); else for (const auto t : terms) if (rng.chance(1, 2)) m.Calculations().Calculate(t);
  const JSON j1 = m;
  const auto text1 = j1.dump(4);
  emit("c10 docsave model " + hdrWire(m) + " " + itemsWire(m.Core(), nullptr, false) + " " + dataWire(m), render(j1));
  docLoadModel(j1);
  if (!gapKeys) { docLoadModel(mutateData(rng, j1)); docLoadModel(mutateData(rng, mutateItems(rng, j1))); }
  RSModel g;
  JSON::parse(text1).get_to(g);
  const std::string tag = gapKeys ? "gap" : "contig";
  emit("c10 modelrt " + tag, [&] { const auto d = firstDiff(modelContent(m), modelContent(g)); return d.empty() ? std::string("1") : "0:" + d; }());
  emit("c10 modelanalysis " + tag, [&] { const auto d = firstDiff(analysisContent(m), analysisContent(g)); return d.empty() ? std::string("1") : "0:" + d; }());
  const JSON j2 = g;
  emit("c10 modelstable " + tag, text1 == j2.dump(4) ? "1" : "0:" + firstDiff(text1, j2.dump(4)));
}


// ---------------------------------------------------------------- OSS documents (Model/JsonOss.lean)
// The third kind of document: to_json / from_json of oss::OSSchema.
//   c10 ossdocsave <hdr> <items> <rows>   content of the real schema (read through its accessors) -> impl: rendering of
//                                         the REAL document, hash-ordered arrays sorted (items / layout by uid,
//                                         equations by operand1, translation pairs by key)
//   c10 ossdocload <fresh> <tree>         a (possibly mutated) document -> impl: none-format (nlohmann exception) |
//                                         content of the really loaded schema + wf=<structural invariant through the API>
//   c10 ossrt / ossstable                 end-to-end oracles (content equal after save -> text -> load; canonical second
//                                         document identical); c10 ossstableraw: the second TEXT identical (informational)
//   hdr:   <hex title>,<hex comment>,<hex sourceDomain>
//   items: # | items joined by ';' (ascending uid), fields joined by ',':
//          uid,dataType,title,alias,comment,address,subAddr,row,column,src,op     (strings in hex)
//          src: - (null) | <hex name>:<type>:<coreHash>:<fullHash>
//          op:  - (null) | <type>:<broken>:<outdated>:<opts>:<trs>
//          opts: ~ (null) | # (empty) | k>v>mode>hexarg joined by '+';  trs: ~ | # | translations joined by '+', each @ | k>v joined by '/'
//   rows:  # | child>parent>parent... joined by ';' (ExecuteOrder x ParentsOf)
using ccl::oss::OSSchema;
using ccl::oss::PictID;

static std::string ossHdrWire(const OSSchema& o) { return vh::hex(o.title) + "," + vh::hex(o.comment) + "," + vh::hex(u8to_string(o.Src().ossDomain)); }
static std::vector<PictID> ossUids(const OSSchema& o) {
  std::vector<PictID> uids; for (const auto& p : o) uids.push_back(p.uid);
  std::sort(uids.begin(), uids.end()); return uids;
}
static std::string ossItemsWire(const OSSchema& o) {
  std::string out;
  for (const auto uid : ossUids(o)) {
    const auto& p = *o(uid);
    if (!out.empty()) out += ";";
    out += std::to_string(uid) + "," + std::to_string(static_cast<int>(p.dataType)) + "," + vh::hex(p.title) + "," + vh::hex(p.alias) + "," + vh::hex(p.comment) + "," +
      vh::hex(p.lnk.address) + "," + vh::hex(p.lnk.subAddr) + ",";
    if (const auto pos = o.Grid()(uid); pos.has_value()) out += std::to_string(pos->row) + "," + std::to_string(pos->column); else out += "?,?";
    out += ",";
    if (const auto* h = o.Src()(uid); h == nullptr) out += "-";
    else out += vh::hex(u8to_string(h->desc.name)) + ":" + std::to_string(static_cast<int>(h->desc.type)) + ":" + std::to_string(h->coreHash) + ":" + std::to_string(h->fullHash);
    out += ",";
    if (const auto* op = o.Ops()(uid); op == nullptr) out += "-";
    else {
      out += std::to_string(static_cast<int>(op->type)) + ":" + (op->broken ? "1" : "0") + ":" + (op->outdated ? "1" : "0") + ":";
      if (const auto* opts = dynamic_cast<const ops::EquationOptions*>(op->options.get()); opts == nullptr) out += "~";
      else if (opts->empty()) out += "#";
      else {
        std::map<uint32_t, uint32_t> rows; for (const auto& [k, v] : *opts) rows[k] = v;
        bool first = true;
        for (const auto& [k, v] : rows) { if (!first) out += "+"; first = false; const auto& e = opts->PropsFor(k); out += std::to_string(k) + ">" + std::to_string(v) + ">" + std::to_string(static_cast<int>(e.mode)) + ">" + vh::hex(e.arg); }
      }
      out += ":";
      if (op->translations == nullptr) out += "~";
      else if (op->translations->empty()) out += "#";
      else {
        bool firstT = true;
        for (const auto& tr : *op->translations) {
          if (!firstT) out += "+"; firstT = false;
          std::map<uint32_t, uint32_t> pairs; for (const auto& [k, v] : tr) pairs[k] = v;
          if (pairs.empty()) out += "@";
          bool first = true;
          for (const auto& [k, v] : pairs) { if (!first) out += "/"; first = false; out += std::to_string(k) + ">" + std::to_string(v); }
        }
      }
    }
  }
  return out.empty() ? "#" : out;
}
static std::string ossRowsWire(const OSSchema& o) {
  std::string out;
  for (const auto c : o.Graph().ExecuteOrder()) {
    if (!out.empty()) out += ";";
    out += std::to_string(c);
    for (const auto p : o.Graph().ParentsOf(c)) out += ">" + std::to_string(p);
  }
  return out.empty() ? "#" : out;
}
static std::string ossContent(const OSSchema& o) { return ossHdrWire(o) + " " + ossItemsWire(o) + " " + ossRowsWire(o); }
static void sortArrayBy(JSON& arr, const std::function<int64_t(const JSON&)>& key) {
  if (!arr.is_array()) return;
  std::vector<JSON> v(arr.begin(), arr.end());
  std::stable_sort(v.begin(), v.end(), [&](const JSON& a, const JSON& b) { return key(a) < key(b); });
  arr = JSON::array();
  for (auto& x : v) arr += std::move(x);
}
// the document with its hash-ordered arrays sorted (only applied to documents the writer produced)
static JSON ossCanon(JSON doc) {
  sortArrayBy(doc["items"], [](const JSON& a) { return a.at("pictUID").get<int64_t>(); });
  sortArrayBy(doc["layout"], [](const JSON& a) { return a.at("pictUID").get<int64_t>(); });
  for (auto& it : doc["items"]) if (it.contains("attachedOperation")) {
    auto& op = it["attachedOperation"];
    if (op.contains("options")) sortArrayBy(op["options"]["data"], [](const JSON& a) { return a.at("operand1").get<int64_t>(); });
    if (op.contains("translations")) for (auto& tr : op["translations"]) sortArrayBy(tr, [](const JSON& a) { return a.at(0).get<int64_t>(); });
  }
  return doc;
}
// the structural invariant of C19 (StructInv) evaluated through the public API
static bool ossStructOk(const OSSchema& o) {
  std::set<PictID> uids;
  for (const auto& p : o) uids.insert(p.uid);
  for (const auto uid : uids) {
    const auto pos = o.Grid()(uid);
    if (!pos.has_value() || o.Grid()(pos.value()) != std::optional<PictID>{ uid }) return false;
    if (o.Src()(uid) == nullptr) return false;
    const auto parents = o.Graph().ParentsOf(uid);
    if (o.Ops()(uid) != nullptr) { if (parents.size() != 2 || parents[0] == parents[1]) return false; }
    else if (!parents.empty()) return false;
  }
  std::map<PictID, std::vector<PictID>> par;
  for (const auto& [c, p] : o.Graph().EdgeList()) { if (!uids.count(c) || !uids.count(p)) return false; par[c].push_back(p); }
  std::map<PictID, int> color;
  std::function<bool(PictID)> dfs = [&](PictID x) { color[x] = 1; for (const auto p : par[x]) { if (color[p] == 1) return false; if (color[p] == 0 && !dfs(p)) return false; } color[x] = 2; return true; };
  for (const auto uid : uids) if (color[uid] == 0 && !dfs(uid)) return false;
  return true;
}
static void ossDocLoad(const JSON& doc) {
  std::string impl, fresh = "-";
  try {
    OSSchema g; doc.get_to(g);
    std::set<int64_t> docUids;
    if (doc.contains("items")) for (const auto& it : doc["items"]) if (it.contains("pictUID") && it["pictUID"].is_number_integer()) docUids.insert(it["pictUID"].get<int64_t>());
    for (const auto& p : g) if (!docUids.count(p.uid)) fresh = std::to_string(p.uid);
    impl = ossContent(g) + " wf=" + (ossStructOk(g) ? "1" : "0");
  } catch (const JSON::exception&) { impl = "none-format"; }
  catch (const std::exception&) { impl = "none-other"; }
  emit("c10 ossdocload " + fresh + " " + render(doc), impl);
}
static void ossHistory(vh::Rng& rng, OSSchema& o, bool diamond) {
  static const std::vector<std::string> strs = { "", "A", "title \xD0\xA2 \"q\"", "line1\nline2 \\", "x y" };
  o.title = rng.pick(strs); o.comment = rng.pick(strs);
  if (rng.chance(1, 2)) o.Src().ossDomain = to_u8string(std::string("dom/") + rng.pick(strs));
  std::vector<PictID> known;
  auto pick = [&]() -> PictID { return (!known.empty() && rng.chance(9, 10)) ? rng.pick(known) : 5U; };
  if (diamond) {   // bases A, B, D; P = A + B; C = P + D
    const auto a = o.InsertBase()->uid, b = o.InsertBase()->uid, d = o.InsertBase()->uid;
    const auto p = o.InsertOperation(a, b)->uid;
    const auto c = o.InsertOperation(p, d)->uid;
    known = { a, b, d, p, c };
  }
  const int L = diamond ? rng.range(0, 4) : rng.range(2, 14);
  for (int i = 0; i < L; ++i) {
    const int r = rng.range(0, 99);
    if (r < 28 || known.size() < 2) known.push_back(o.InsertBase()->uid);
    else if (r < 58) { if (const auto* p = o.InsertOperation(pick(), pick()); p != nullptr) known.push_back(p->uid); }
    else if (r < 66) { const auto t = pick(); if (o.Erase(t)) known.erase(std::remove(known.begin(), known.end(), t), known.end()); }
    else if (r < 73) o.SetPictTitle(pick(), rng.pick(strs));
    else if (r < 80) o.SetPictAlias(pick(), rng.pick(strs));
    else if (r < 86) o.SetPictComment(pick(), rng.pick(strs));
    else if (r < 92) o.SetPictLink(pick(), oss::MediaLink{ rng.chance(1, 3) ? "" : "http://a/" + std::to_string(rng.range(0, 9)), rng.pick(strs) });
    else o.Grid().ShiftPict(pick(), rng.range(-2, 3));
  }
}
// the fields a plain editing history leaves at their defaults (source handles, operation definitions, flags,
// stored equations and translations) are set at document level: the enriched document is LOADED, and the loaded
// schema is the object under test
static JSON ossEnrich(vh::Rng& rng, JSON doc) {
  static const std::vector<std::string> opTypes = { "tba", "rsMerge", "rsSynt" }, modes = { "keepSecond", "keepFirst", "createNew" }, terms = { "", "new term", "\xD1\x82" };
  int n = 0;
  for (auto& it : doc["items"]) {
    ++n;
    if (rng.chance(2, 3)) it["attachedSource"] = JSON{ {"resourceID", rng.chance(1, 5) ? std::string() : "s" + std::to_string(n) + ".trs"}, {"resourceType", rng.chance(3, 4) ? "rsDocument" : "tba"},
                                                       {"coreHash", rng.below(100000)}, {"fullHash", rng.below(100000)} };
    if (rng.chance(1, 5)) it["dataType"] = "tba";
    if (!it.contains("attachedOperation")) continue;
    auto& op = it["attachedOperation"];
    op["operationType"] = rng.pick(opTypes); op["isBroken"] = rng.chance(1, 3); op["isOutdated"] = rng.chance(1, 3);
    if (rng.chance(1, 2)) {
      JSON data = JSON::array(); std::set<int> keys;
      const int m = rng.range(0, 4);
      for (int q = 0; q < m; ++q) { const int k = rng.range(1, 40); if (!keys.insert(k).second) continue;
        data += JSON{ {"operand1", k}, {"operand2", rng.range(1, 40)}, {"parameters", JSON{ {"equationType", rng.pick(modes)}, {"newTerm", rng.pick(terms)} }} }; }
      op["options"] = JSON{ {"type", "equations"}, {"data", data} };
    }
    if (rng.chance(1, 2)) {
      JSON trs = JSON::array();
      const int m = rng.range(0, 2);
      for (int q = 0; q < m; ++q) { JSON tr = JSON::array(); std::set<int> keys; const int z = rng.range(0, 4);
        for (int w = 0; w < z; ++w) { const int k = rng.range(1, 40); if (!keys.insert(k).second) continue; tr += JSON::array({ k, rng.range(1, 40) }); }
        trs += tr; }
      op["translations"] = trs;
    }
  }
  return doc;
}
// documents the writer does not produce
static JSON ossMutate(vh::Rng& rng, JSON doc) {
  auto& items = doc["items"]; auto& conns = doc["connections"];
  auto anyUid = [&]() -> int64_t { return items.empty() ? 7 : items[rng.below(static_cast<uint32_t>(items.size()))]["pictUID"].get<int64_t>(); };
  auto opUids = [&]() { std::vector<int64_t> v; for (const auto& it : items) if (it.contains("attachedOperation")) v.push_back(it["pictUID"].get<int64_t>()); return v; };
  const int kind = rng.range(0, 17);
  switch (kind) {
  case 0: { static const char* keys[] = { "type", "title", "comment", "sourceDomain", "items", "layout", "connections" }; doc.erase(keys[rng.range(0, 6)]); break; }
  case 1: if (!items.empty()) { static const char* keys[] = { "pictUID", "dataType", "title", "alias", "comment", "link", "position", "attachedSource", "attachedOperation" };
            items[rng.below(static_cast<uint32_t>(items.size()))].erase(keys[rng.range(0, 8)]); } break;
  case 2: if (!items.empty()) { auto& it = items[rng.below(static_cast<uint32_t>(items.size()))];
            static const char* sub[] = { "link", "position", "attachedSource", "attachedOperation" }; static const std::vector<std::vector<std::string>> keys = {
              { "address", "subAddr" }, { "row", "column" }, { "resourceID", "resourceType", "coreHash", "fullHash" }, { "operationType", "isBroken", "isOutdated", "options", "translations" } };
            const int s = rng.range(0, 3); if (it.contains(sub[s])) it[sub[s]].erase(rng.pick(keys[static_cast<size_t>(s)])); } break;
  case 3: conns += JSON::array({ anyUid(), 424242 }); break;                          // dangling parent
  case 4: conns += JSON::array({ 424242, anyUid() }); break;                          // dangling child
  case 5: if (items.size() >= 2) items[rng.range(1, static_cast<int>(items.size()) - 1)]["pictUID"] = items[0]["pictUID"]; break;   // repeated uid
  case 6: if (items.size() >= 2) items[rng.range(1, static_cast<int>(items.size()) - 1)]["position"] = items[0]["position"]; break; // occupied cell
  case 7: shuffleArray(rng, conns); break;
  case 8: shuffleArray(rng, items); if (rng.chance(1, 2)) shuffleArray(rng, conns); break;
  case 9: if (!conns.empty()) { const auto e = conns[rng.below(static_cast<uint32_t>(conns.size()))]; conns += JSON::array({ e[1], e[0] }); if (rng.chance(1, 2)) conns += e; } break;  // reverse / repeated connection
  case 10: { const auto u = anyUid(); conns += JSON::array({ u, u }); break; }       // self loop
  case 11: if (const auto ops = opUids(); !ops.empty() && !conns.empty()) {          // a cycle through an operation: some ancestor gets the operation as a parent
             const auto c = rng.pick(ops); int64_t anc = c;
             for (int hop = rng.range(1, 3); hop > 0; --hop) for (const auto& e : conns) if (e[0] == anc) { anc = e[1].get<int64_t>(); break; }
             conns += JSON::array({ anc, c }); } break;
  case 12: if (const auto ops = opUids(); !ops.empty()) conns += JSON::array({ rng.pick(ops), anyUid() }); break;   // third parent
  case 13: if (!items.empty()) { auto& it = items[rng.below(static_cast<uint32_t>(items.size()))];                  // unknown enum value / wrong JSON type
             if (rng.chance(1, 2)) it["dataType"] = rng.chance(1, 2) ? JSON("what") : JSON(3);
             else if (rng.chance(1, 2)) it["title"] = 5; else it["pictUID"] = "x"; } break;
  case 14: if (!conns.empty()) { auto& e = conns[rng.below(static_cast<uint32_t>(conns.size()))]; if (rng.chance(1, 2)) e += 7; else e = JSON::array({ e[0] }); } break;  // pair with 3 / 1 elements
  case 15: if (!conns.empty()) conns.erase(static_cast<size_t>(rng.below(static_cast<uint32_t>(conns.size())))); break;   // an operation with one parent
  case 16: if (const auto ops = opUids(); !ops.empty()) for (auto& it : items) if (it["pictUID"] == ops[0]) {       // repeated equation key / translation key
             it["attachedOperation"]["options"] = JSON{ {"type", "x"}, {"data", JSON::array({ JSON{ {"operand1", 3}, {"operand2", 4}, {"parameters", JSON{ {"equationType", "keepFirst"}, {"newTerm", "a"} }} },
                                                                                                 JSON{ {"operand1", 3}, {"operand2", 5}, {"parameters", JSON{ {"equationType", "nope"}, {"newTerm", "b"} }} } })} };
             it["attachedOperation"]["translations"] = JSON::array({ JSON::array({ JSON::array({ 1, 2 }), JSON::array({ 1, 3, 9 }) }) }); } break;
  default: if (!items.empty()) { auto& it = items[rng.below(static_cast<uint32_t>(items.size()))];                  // a base gets connections: child without an operation handle
             const auto u = it["pictUID"].get<int64_t>(); const auto v = anyUid(); if (u != v) conns += JSON::array({ u, v }); } break;
  }
  return doc;
}
static void ossCase(vh::Rng& rng, bool diamond) {
  JSON j0;
  { OSSchema o0; ossHistory(rng, o0, diamond); j0 = o0;
    emit("c10 ossdocsave " + ossContent(o0), render(ossCanon(j0))); }
  OSSchema o1;
  ossEnrich(rng, j0).get_to(o1);
  const JSON j1 = o1;
  const auto text1 = j1.dump(4);
  emit("c10 ossdocsave " + ossContent(o1), render(ossCanon(j1)));
  ossDocLoad(j1);
  ossDocLoad(ossMutate(rng, j1));
  ossDocLoad(ossMutate(rng, j1));
  OSSchema o2;
  JSON::parse(text1).get_to(o2);
  emit("c10 ossrt", [&] { const auto d = firstDiff(ossContent(o1), ossContent(o2)); return d.empty() ? std::string("1") : "0:" + d; }());
  const JSON j2 = o2;
  emit("c10 ossstable", [&] { const auto d = firstDiff(ossCanon(j1).dump(1), ossCanon(j2).dump(1)); return d.empty() ? std::string("1") : "0:" + d; }());
  emit("c10 ossstableraw", text1 == j2.dump(4) ? "1" : "0:" + firstDiff(text1, j2.dump(4)));
}

int main() {
  vh::Rng rng(vh::seedFromEnv());
  const bool deep = vh::thorough();
  leafCodecs(rng, deep ? 20000 : 2000);
  const int NF = deep ? 3000 : 300, NM = deep ? 3000 : 300;
  for (int i = 0; i < NF; ++i) { const auto cs = rng.next(); vh::Rng sub(cs); vh::forkedEmit([&] { ccl::verif::Seed(static_cast<uint32_t>(cs)); formCase(sub); }, "c10 crash"); }
  for (int i = 0; i < NM; ++i) { const auto cs = rng.next(); vh::Rng sub(cs); vh::forkedEmit([&] { ccl::verif::Seed(static_cast<uint32_t>(cs)); modelCase(sub, i % 10 == 9); }, "c10 crash"); }
  const int NO = deep ? 2000 : 250;
  for (int i = 0; i < NO; ++i) { const auto cs = rng.next(); vh::Rng sub(cs); vh::forkedEmit([&] { ccl::verif::Seed(static_cast<uint32_t>(cs)); ossCase(sub, i % 5 == 0); }, "c10 crash"); }
  return 0;
}
