// C20 correspondence harness: runs Strings.hpp on enumerated / generated inputs and prints
// "<op>\t<impl result>" lines; the same op lines are fed to the Lean driver.
#include "common.hpp"
#include "ccl/Strings.hpp"

using namespace ccl;
using vh::emit; using vh::hex;

static std::string iterStr(const std::string& s) {
  std::string out; bool first = true;
  for (auto it = UTF8Begin(s); it != UTF8End(s); ++it) {
    if (!first) out += ","; first = false;
    out += std::to_string(it.Position()) + ":" + std::to_string(it.BytePosition());
  }
  return out;
}

static void strOps(const std::string& s, int lo, int hi) {
  emit("c20 iter " + hex(s), iterStr(s));
  emit("c20 size " + hex(s), std::to_string(SizeInCodePoints(s)));
  for (int a = lo; a <= hi; ++a)
    for (int b = lo; b <= hi; ++b)
      emit("c20 substr " + hex(s) + " " + std::to_string(a) + " " + std::to_string(b),
           hex(Substr(s, StrRange{ a, b })));
}

static void byteOps(const std::string& s) {
  {
    std::string out; bool first = true;
    for (auto p : SplitBySymbol(s, ',')) { if (!first) out += ","; first = false; out += hex(p); }
    emit("c20 split " + hex(s) + " 44", out);
  }
  emit("c20 trim " + hex(s), hex(TrimWhitespace(s)));
  emit("c20 isint " + hex(s), IsInteger(s) ? "1" : "0");
}

static void rngOp(int a, int b, int c, int d) {
  const StrRange r{ a, b }, s{ c, d };
  auto bit = [](bool x) { return x ? "1" : "0"; };
  std::string res;
  res += bit(r.Contains(s)); res += " "; res += bit(r.IsBefore(s)); res += " "; res += bit(r.IsAfter(s)); res += " ";
  res += bit(r.Meets(s)); res += " "; res += bit(r.SharesBorder(s)); res += " "; res += bit(r.Overlaps(s)); res += " ";
  res += bit(r.Starts(s)); res += " "; res += bit(r.Finishes(s)); res += " "; res += bit(r.IsDuring(s)); res += " ";
  res += bit(r.Contains(c)); res += " "; res += bit(r == s); res += " ";
  const auto is = r.Intersect(s);
  res += is.has_value() ? std::to_string(is->start) + ":" + std::to_string(is->finish) : "none";
  emit("c20 rng " + std::to_string(a) + " " + std::to_string(b) + " " + std::to_string(c) + " " + std::to_string(d), res);
}

// dual and symmetric relations agree with each other (implications between relations are NOT demanded: an empty
// range at the end of another 'finishes' it without overlapping it, by the end-point definitions of the code)
static void rngSymOp(int a, int b, int c, int d) {
  if (a > b || c > d) return;
  const StrRange r{ a, b }, s{ c, d };
  auto bit = [](bool x) { return x ? "1" : "0"; };
  std::string res;
  res += bit(r.Overlaps(s) == s.Overlaps(r)); res += " ";
  res += bit(r.SharesBorder(s) == s.SharesBorder(r)); res += " ";
  res += bit((r == s) == (s == r)); res += " ";
  res += bit(r.IsBefore(s) == s.IsAfter(r));
  emit("c20 rngsym " + std::to_string(a) + " " + std::to_string(b) + " " + std::to_string(c) + " " + std::to_string(d), res);
}

int main() {
  vh::Rng rng(vh::seedFromEnv());
  const bool deep = vh::thorough();
  const std::vector<std::string> alpha = { "a", " ", ",", "-", "7", "\xC2\xAC", "\xE2\x88\x80", "\xF0\x9D\x94\xB8" };

  // exhaustive: all strings of <= maxCp code points, every range in [0, n+2]^2
  const int maxCp = deep ? 4 : 3;
  std::vector<std::string> layer = { "" };
  for (int len = 0; len <= maxCp; ++len) {
    for (const auto& s : layer) strOps(s, 0, len + 2);
    if (len == maxCp) break;
    std::vector<std::string> next;
    for (const auto& s : layer) for (const auto& c : alpha) next.push_back(s + c);
    layer.swap(next);
  }
  // random longer well-formed strings
  for (int i = 0; i < (deep ? 3000 : 400); ++i) {
    std::string s; const int n = rng.range(4, 12);
    for (int k = 0; k < n; ++k) s += rng.pick(alpha);
    emit("c20 iter " + hex(s), iterStr(s));
    emit("c20 size " + hex(s), std::to_string(SizeInCodePoints(s)));
    for (int k = 0; k < 6; ++k) {
      int a = rng.range(0, n + 2), b = rng.range(0, n + 2);
      if (rng.chance(2, 3) && a > b) std::swap(a, b);
      emit("c20 substr " + hex(s) + " " + std::to_string(a) + " " + std::to_string(b), hex(Substr(s, StrRange{ a, b })));
    }
  }
  // every well-formed lead byte: the first scalar value of each lead byte 0xC2..0xF4, the boundary
  // scalar values of every length class, and random scalar values of every class, in small contexts
  {
    auto enc = [](uint32_t cp) {
      std::string o;
      if (cp < 0x80) o.push_back(static_cast<char>(cp));
      else if (cp < 0x800) { o.push_back(static_cast<char>(0xC0 | (cp >> 6))); o.push_back(static_cast<char>(0x80 | (cp & 0x3F))); }
      else if (cp < 0x10000) { o.push_back(static_cast<char>(0xE0 | (cp >> 12))); o.push_back(static_cast<char>(0x80 | ((cp >> 6) & 0x3F))); o.push_back(static_cast<char>(0x80 | (cp & 0x3F))); }
      else { o.push_back(static_cast<char>(0xF0 | (cp >> 18))); o.push_back(static_cast<char>(0x80 | ((cp >> 12) & 0x3F))); o.push_back(static_cast<char>(0x80 | ((cp >> 6) & 0x3F))); o.push_back(static_cast<char>(0x80 | (cp & 0x3F))); }
      return o;
    };
    std::vector<uint32_t> cps = { 0x7F, 0x80, 0x7FF, 0x800, 0x905, 0xFFF, 0x1000, 0xCFFF, 0xD000, 0xD7FF, 0xE000, 0xFFFD, 0xFFFF, 0x10000, 0x3FFFF, 0x40000, 0xFFFFF, 0x100000, 0x10FFFF };
    for (uint32_t lead = 0xC2; lead <= 0xDF; ++lead) cps.push_back((lead - 0xC0) << 6);
    for (uint32_t lead = 0xE0; lead <= 0xEF; ++lead) { const uint32_t cp = lead == 0xE0 ? 0x800 : (lead - 0xE0) << 12; if (cp < 0xD800 || cp > 0xDFFF) cps.push_back(cp); }
    for (uint32_t lead = 0xF0; lead <= 0xF4; ++lead) cps.push_back(lead == 0xF0 ? 0x10000 : (lead - 0xF0) << 18);
    for (const auto cp : cps) {
      const auto c = enc(cp);
      strOps(c, 0, 2);
      strOps("a" + c + "b", 0, 4);
      strOps(c + c, 0, 3);
    }
    static const std::vector<std::pair<uint32_t, uint32_t>> classes = { { 0x80, 0x7FF }, { 0x800, 0xFFF }, { 0x1000, 0xD7FF }, { 0xE000, 0xFFFF }, { 0x10000, 0x3FFFF }, { 0x40000, 0xFFFFF }, { 0x100000, 0x10FFFF } };
    for (int i = 0; i < (deep ? 3000 : 300); ++i) {
      std::string t; const int n = rng.range(1, 5);
      for (int k = 0; k < n; ++k) {
        if (rng.chance(1, 4)) { t += "a"; continue; }
        const auto& cl = rng.pick(classes);
        t += enc(static_cast<uint32_t>(rng.range(static_cast<int>(cl.first), static_cast<int>(cl.second))));
      }
      strOps(t, 0, n + 1);
    }
  }

  // malformed stream: arbitrary bytes (model is a transcription, so it must agree here too)
  for (int i = 0; i < (deep ? 20000 : 2000); ++i) {
    std::string s; const int n = rng.range(1, 7);
    static const std::vector<int> bytes = { 0x61, 0x20, 0x80, 0xBF, 0xC2, 0xE2, 0xF0, 0xFF, 0xAC, 0x88 };
    for (int k = 0; k < n; ++k) s.push_back(static_cast<char>(rng.pick(bytes)));
    emit("c20 iter " + hex(s), iterStr(s));
    emit("c20 size " + hex(s), std::to_string(SizeInCodePoints(s)));
    int a = rng.range(0, n + 1), b = rng.range(0, n + 1);
    if (a > b) std::swap(a, b);
    emit("c20 substr " + hex(s) + " " + std::to_string(a) + " " + std::to_string(b), hex(Substr(s, StrRange{ a, b })));
  }

  // exhaustive byte strings for split / trim / isint
  const std::vector<char> balpha = { 'a', ',', ' ', '-', '0', '\t' };
  const int maxB = deep ? 6 : 5;
  std::vector<std::string> bl = { "" };
  for (int len = 0; len <= maxB; ++len) {
    for (const auto& s : bl) byteOps(s);
    if (len == maxB) break;
    std::vector<std::string> next;
    for (const auto& s : bl) for (char c : balpha) next.push_back(s + c);
    bl.swap(next);
  }
  for (int i = 0; i < (deep ? 5000 : 500); ++i) {
    std::string s; const int n = rng.range(6, 20);
    static const std::vector<char> wide = { 'a', ',', ' ', '-', '0', '9', '\t', '\n', '\r', '\v', '\f', 'z', '5' };
    for (int k = 0; k < n; ++k) s.push_back(rng.pick(wide));
    byteOps(s);
  }

  // all pairs of ranges in a window (also reversed ones: outside the precondition, model only)
  const int W = deep ? 7 : 6;
  for (int a = 0; a <= W; ++a) for (int b = 0; b <= W; ++b)
    for (int c = 0; c <= W; ++c) for (int d = 0; d <= W; ++d) { rngOp(a, b, c, d); rngSymOp(a, b, c, d); }
  for (int i = 0; i < 500; ++i)
    rngOp(rng.range(-50, 50), rng.range(-50, 50), rng.range(-50, 50), rng.range(-50, 50));

  // merge
  for (int i = 0; i < (deep ? 5000 : 800); ++i) {
    const int n = rng.range(0, 5);
    std::vector<StrRange> v; std::string op = "c20 merge";
    for (int k = 0; k < n; ++k) {
      int a = rng.range(-5, 9), b = rng.range(-5, 9);
      if (a > b) std::swap(a, b);
      v.emplace_back(a, b); op += " " + std::to_string(a) + " " + std::to_string(b);
    }
    const auto m = StrRange::Merge(v);
    emit(op, std::to_string(m.start) + ":" + std::to_string(m.finish));
  }
  return 0;
}
