// C11 harness: an interpreted model never shows a stale calculated value.
//  * fragment histories (bases interpreted by integer sets, terms = unions of names): every op
//    mirrored to the Lean model; reports compared with the model and with a full recalculation;
//  * general histories (structures, statements, functions, arbitrary definitions): the property
//    oracle evaluated on the implementation itself against a freshly loaded, fully recalculated
//    copy (`c11 freshimpl` must be 1).
#include "common.hpp"
#include "frag.hpp"
#include "verif_seed.hpp"
#include "ccl/semantic/RSModel.h"
#include <algorithm>
#include <map>

using namespace ccl;
using namespace ccl::semantic;
using vh::emit;

static std::string dataStr(const std::optional<object::StructuredData>& d) {
  if (!d.has_value()) return "-";
  if (d->IsCollection() && d->B().IsEmpty()) return "e";
  if (!d->IsCollection()) return d->ToString();
  std::vector<int> v;
  bool flat = true;
  for (const auto& el : d->B()) { if (el.IsElement()) v.push_back(el.E().Value()); else flat = false; }
  if (!flat) return d->ToString();
  std::sort(v.begin(), v.end());
  std::string out;
  for (size_t i = 0; i < v.size(); ++i) { if (i) out += "."; out += std::to_string(v[i]); }
  return out;
}

static std::string fragReport(const RSModel& m) {
  std::string out;
  for (const auto uid : m.Core()) {
    if (!out.empty()) out += " ";
    out += std::to_string(uid) + ":" + (m.Calculations().WasCalculated(uid) ? "1" : "0") + ":" + dataStr(m.Values().SDataFor(uid));
  }
  return out.empty() ? "-" : out;
}

static std::string noSpace(std::string s) { for (auto& c : s) if (c == ' ' || c == '\t' || c == '\n') c = '_'; return s; }

// the property, judged on the implementation: a fresh model loaded with the same content and the
// same base / structure data, fully recalculated, must agree on every calculated value shown
static std::string freshOracle(const RSModel& m) {
  RSModel fresh;
  for (const auto uid : m.List()) fresh.Load(m.Core().AsRecord(uid));
  fresh.FinalizeLoadingCore();
  fresh.UpdateState();
  for (const auto uid : m.Core()) {
    const auto type = m.GetRS(uid).type;
    if (IsBaseSet(type)) {
      if (const auto* t = m.Values().TextFor(uid); t != nullptr) fresh.Values().LoadData(uid, *t);
    } else if (type == CstType::structured) {
      if (const auto d = m.Values().SDataFor(uid); d.has_value()) fresh.Values().LoadData(uid, d.value());
    }
  }
  fresh.Calculations().RecalculateAll();
  for (const auto uid : m.Core()) {
    const auto type = m.GetRS(uid).type;
    if (!IsCalculable(type) || !m.Calculations().WasCalculated(uid)) continue;
    if (const auto d = m.Values().SDataFor(uid); d.has_value()) {
      const auto f = fresh.Values().SDataFor(uid);
      if (!f.has_value() || f.value() != d.value())
        return "0:" + m.GetRS(uid).alias + "_shows_" + noSpace(d->ToString()) + "_recomputed_" + (f.has_value() ? noSpace(f->ToString()) : std::string("none"));
    }
    if (const auto s = m.Values().StatementFor(uid); s.has_value()) {
      const auto f = fresh.Values().StatementFor(uid);
      if (!f.has_value() || f.value() != s.value())
        return "0:" + m.GetRS(uid).alias + "_shows_" + (s.value() ? "true" : "false") + "_recomputed_" + (f.has_value() ? (f.value() ? "true" : "false") : "none");
    }
  }
  return "1";
}

// structure data must only mention elements that exist in the current interpretation of the base sets
static bool elementsValid(const RSModel& m, const object::StructuredData& data, const rslang::Typification& type) {
  using rslang::StructureType;
  switch (type.Structure()) {
  default:
  case StructureType::basic: {
    if (type == rslang::Typification::Integer()) return true;
    const auto base = m.Core().FindAlias(type.E().baseID);
    if (!base.has_value()) return false;
    if (m.GetRS(base.value()).type == CstType::constant) return true;
    const auto* text = m.Values().TextFor(base.value());
    return text != nullptr && data.IsElement() && text->HasInterpretantFor(data.E().Value());
  }
  case StructureType::collection: {
    if (!data.IsCollection()) return false;
    for (const auto& el : data.B()) if (!elementsValid(m, el, type.B().Base())) return false;
    return true;
  }
  case StructureType::tuple: {
    if (!data.IsTuple() || data.T().Arity() != type.T().Arity()) return false;
    for (auto i = rslang::Typification::PR_START; i < type.T().Arity() + rslang::Typification::PR_START; ++i)
      if (!elementsValid(m, data.T().Component(i), type.T().Component(i))) return false;
    return true;
  }
  }
}
static std::string structOracle(const RSModel& m) {
  for (const auto uid : m.Core()) {
    if (m.GetRS(uid).type != CstType::structured) continue;
    const auto data = m.Values().SDataFor(uid);
    if (!data.has_value()) continue;
    const auto* typ = m.GetParse(uid).Typification();
    if (typ == nullptr) continue;   // no typification now: judged as soon as it is typed again
    if (!elementsValid(m, data.value(), *typ)) return "0:" + m.GetRS(uid).alias + "_holds_" + noSpace(data->ToString());
  }
  return "1";
}

static const char* kindName(CstType t) { return t == CstType::base ? "base" : "term"; }

static TextInterpretation textOf(const std::vector<int>& keys) {
  TextInterpretation t;
  for (auto k : keys) t.SetInterpretantFor(k, "e" + std::to_string(k));   // the text of a key is fixed
  return t;
}

static void after(const RSModel& m) {
  emit("c11 report", fragReport(m));
  emit("c11 freshimpl", freshOracle(m));
}

static void fragmentHistory(vh::Rng& rng, int L) {
  RSModel m;
  emit("c11 reset", "ok");
  const std::vector<std::string> names = { "X1", "X2", "D1", "D2", "D3", "D4", "D9" };
  auto genDef = [&](bool forBase) {
    FragDef d{ 0, {} };
    const int r = rng.range(0, 99);
    if (forBase) { if (r < 90) return d; }
    if (r < 5) { d.kind = 0; return d; }
    if (r < 10) { d.kind = 2; return d; }
    d.kind = 1;
    const int n = rng.range(1, 3);
    for (int i = 0; i < n; ++i) d.names.push_back(rng.pick(names));
    return d;
  };
  std::vector<uint32_t> known;
  auto pickUid = [&]() -> uint32_t { return (!known.empty() && rng.chance(19, 20)) ? rng.pick(known) : static_cast<uint32_t>(rng.range(1, 9)); };
  for (int i = 0; i < L; ++i) {
    const int r = rng.range(0, 99);
    if (r < 22 || known.size() < 3) {
      ConceptRecord rec;
      rec.uid = static_cast<uint32_t>(rng.range(1, 12));
      rec.type = (known.empty() || rng.chance(1, 4)) ? CstType::base : CstType::term;
      rec.alias = rec.type == CstType::base ? (rng.chance(2, 3) ? "X1" : "X2") : rng.pick(std::vector<std::string>{ "D1", "D2", "D3", "D4" });
      rec.rs = renderDef(genDef(rec.type == CstType::base));
      const auto uid = m.InsertCopy(rec);
      known.push_back(uid);
      emit(std::string("c11 insert ") + std::to_string(uid) + " " + m.GetRS(uid).alias + " " + kindName(rec.type) + " " + wireOfText(m.GetRS(uid).definition), "ok");
    } else if (r < 30) {
      const auto uid = pickUid();
      const bool ok = m.Erase(uid);
      emit(ok ? "c11 erase " + std::to_string(uid) : std::string("c11 noop"), "ok");
    } else if (r < 45) {
      const auto uid = pickUid();
      const auto d = genDef(m.Contains(uid) && m.GetRS(uid).type == CstType::base);
      const bool existed = m.Contains(uid);
      m.SetExpressionFor(uid, renderDef(d));
      emit(existed ? "c11 setdef " + std::to_string(uid) + " " + wireDef(d) : std::string("c11 noop"), "ok");
    } else if (r < 50) {
      const auto uid = pickUid();
      if (!m.Contains(uid)) emit("c11 noop", "ok");
      else {
        const auto letter = m.GetRS(uid).type == CstType::base ? std::string("X") : std::string("D");
        const auto name = letter + std::to_string(rng.range(1, 5));
        const bool subst = rng.chance(1, 2);
        const bool ok = m.SetAliasFor(uid, name, subst);
        emit(ok ? "c11 setalias " + std::to_string(uid) + " " + name + (subst ? " 1" : " 0") : std::string("c11 noop"), "ok");
      }
    } else if (r < 60) {
      const auto uid = pickUid();
      m.Values().AddBasicElement(uid, "n" + std::to_string(i));
      emit("c11 addelem " + std::to_string(uid), "ok");
    } else if (r < 72) {
      const auto uid = pickUid();
      std::vector<int> keys;
      const int n = rng.range(0, 3);
      for (int k = 0; k < n; ++k) keys.push_back(rng.range(1, 4));
      std::sort(keys.begin(), keys.end()); keys.erase(std::unique(keys.begin(), keys.end()), keys.end());
      if (m.Contains(uid) && IsBaseSet(m.GetRS(uid).type)) m.Values().SetBasicText(uid, textOf(keys));
      std::string ks;
      for (size_t k = 0; k < keys.size(); ++k) { if (k) ks += ","; ks += std::to_string(keys[k]); }
      emit("c11 settext " + std::to_string(uid) + " " + (ks.empty() ? "-" : ks), "ok");
    } else if (r < 76) {
      const auto uid = pickUid();
      m.Values().ResetDataFor(uid);
      emit("c11 resetdata " + std::to_string(uid), "ok");
    } else if (r < 90) {
      const auto uid = pickUid();
      m.Calculations().Calculate(uid);
      emit("c11 calc " + std::to_string(uid), "ok");
    } else {
      m.Calculations().RecalculateAll();
      emit("c11 recalc", "ok");
    }
    after(m);
  }
}

// directed: constituents whose own evaluation status never becomes 'calculated' (term-functions, predicates, a term
// nobody calculated yet) still have dependants with stored values: editing them must invalidate those values, and a
// structure typed through such a term must prune its data (seeded change C11-4: the reset wave skipped when the edited
// constituent itself had no value)
static void callableHistory(vh::Rng& rng) {
  RSModel m;
  emit("c11 reset", "ok");
  const std::string IN = "\xE2\x88\x88", TIMES = "\xC3\x97", ALL = "\xE2\x88\x80";
  const auto x1 = m.Emplace(CstType::base);
  const auto x2 = m.Emplace(CstType::base);
  for (int k = 0; k < 3; ++k) m.Values().AddBasicElement(x1, "p" + std::to_string(k));
  m.Values().AddBasicElement(x2, "q");
  const std::vector<std::string> fbodies = { "[\xCE\xB1" + IN + BOOL + "(X1)] \xCE\xB1" + UNION + "\xCE\xB1", "[\xCE\xB1" + IN + BOOL + "(X1)] \xCE\xB1\\\xCE\xB1",
    "[\xCE\xB1" + IN + BOOL + "(X1)] X1\\\xCE\xB1", "[\xCE\xB1" + IN + BOOL + "(X1)] D{\xCE\xBE" + IN + "\xCE\xB1 | \xCE\xBE" + IN + "X1}" };
  const std::vector<std::string> pbodies = { "[\xCE\xB1" + IN + "X1] \xCE\xB1=\xCE\xB1", "[\xCE\xB1" + IN + "X1] \xCE\xB1\xE2\x89\xA0\xCE\xB1", "[\xCE\xB1" + IN + "X1] \xCE\xB1" + IN + "X1" };
  const auto f1 = m.Emplace(CstType::function, rng.pick(fbodies));
  const auto p1 = m.Emplace(CstType::predicate, rng.pick(pbodies));
  const auto d1 = m.Emplace(CstType::term, "F1[X1]");
  const auto d2 = m.Emplace(CstType::term, "D1" + UNION + "D1");
  const auto a1 = m.Emplace(CstType::axiom, ALL + "\xCE\xBE" + IN + "X1 P1[\xCE\xBE]");
  const auto d3 = m.Emplace(CstType::term, "X1");                         // never calculated on purpose
  const auto s1 = m.Emplace(CstType::structured, BOOL + "(D3)");
  auto data = object::Factory::EmptySet();
  data.ModifyB().AddElement(object::Factory::Val(1)); data.ModifyB().AddElement(object::Factory::Val(2));
  m.Values().SetStructureData(s1, data);
  for (const auto u : { d1, d2, a1 }) if (rng.chance(3, 4)) m.Calculations().Calculate(u);
  emit("c11 freshimpl callable-built", freshOracle(m));
  emit("c11 structvalid callable-built", structOracle(m));
  for (int step = 0; step < 6; ++step) {
    const int r = rng.range(0, 5);
    std::string what;
    if (r == 0) { m.SetExpressionFor(f1, rng.pick(fbodies)); what = "edit-function"; }
    else if (r == 1) { m.SetExpressionFor(p1, rng.pick(pbodies)); what = "edit-predicate"; }
    else if (r == 2) { m.SetExpressionFor(d3, rng.chance(1, 2) ? "X2" : "X1"); what = "retype-through-term"; }
    else if (r == 3) { m.Calculations().Calculate(rng.pick(std::vector<uint32_t>{ d1, d2, a1 })); what = "calc"; }
    else if (r == 4) { m.Values().AddBasicElement(x1, "n" + std::to_string(step)); what = "addelem"; }
    else { m.SetExpressionFor(d1, rng.chance(1, 2) ? "F1[X1]" : "F1[X1\\X1]"); what = "edit-caller"; }
    emit("c11 freshimpl callable-" + what, freshOracle(m));
    emit("c11 structvalid callable-" + what, structOracle(m));
  }
}

static void generalHistory(vh::Rng& rng, int L) {
  RSModel m;
  emit("c11 reset", "ok");
  const std::string IN = "\xE2\x88\x88", XI = "\xCE\xBE", TIMES = "\xC3\x97";
  const std::vector<std::string> defs = {
    "X1", "X1" + UNION + "X1", BOOL + "(X1)", "X1" + TIMES + "X1", "D1", "D2", "D1" + UNION + "D2", "D1\\D2", "Pr1(S1)", "red(S2)", "S1",
    "D{" + XI + IN + "X1 | " + XI + "=" + XI + "}", "D{" + XI + IN + "D1 | " + XI + IN + "D2}", "F1[X1]", "F1[D1]", "card(D1)", "card(X1)+card(D2)",
    "[\xCE\xB1" + IN + BOOL + "(X1)] \xCE\xB1" + UNION + "\xCE\xB1", "1=1", "card(X1)>1", "D1=D2", "D1\xE2\x8A\x86" "X1", "bad(", "X9", "bool(D1)", "debool({D1})" };
  const std::vector<CstType> kinds = { CstType::base, CstType::structured, CstType::structured, CstType::axiom, CstType::term, CstType::term, CstType::term,
                                       CstType::function, CstType::theorem };
  std::vector<uint32_t> known;
  auto pickUid = [&]() -> uint32_t { return (!known.empty() && rng.chance(19, 20)) ? rng.pick(known) : static_cast<uint32_t>(rng.range(1, 9)); };
  if (rng.chance(1, 2)) {
    // a populated start: base set with elements, a structure with data over it, a term over the structure
    const auto x = m.Emplace(CstType::base); known.push_back(x);
    for (int k = 0; k < 3; ++k) m.Values().AddBasicElement(x, "p" + std::to_string(k));
    const auto st = m.Emplace(CstType::structured, BOOL + "(" + m.GetRS(x).alias + TIMES + m.GetRS(x).alias + ")"); known.push_back(st);
    auto data = object::Factory::EmptySet();
    data.ModifyB().AddElement(object::Factory::Tuple({ object::Factory::Val(2), object::Factory::Val(3) }));
    m.Values().SetStructureData(st, data);
    known.push_back(m.Emplace(CstType::term, "Pr1(" + m.GetRS(st).alias + ")"));
    m.Calculations().RecalculateAll();
    emit("c11 freshimpl prefix", freshOracle(m));
    emit("c11 structvalid prefix", structOracle(m));
  }
  for (int i = 0; i < L; ++i) {
    const int r = rng.range(0, 99);
    std::string what;
    if (r < 22 || known.size() < 4) {
      const auto t = known.empty() ? CstType::base : rng.pick(kinds);
      std::string def;
      if (t == CstType::structured) def = rng.chance(1, 2) ? BOOL + "(X1" + TIMES + "X1)" : BOOL + "(" + BOOL + "(X1))";
      else if (!IsBaseSet(t)) def = rng.pick(defs);
      known.push_back(m.Emplace(t, def)); what = "emplace";
    } else if (r < 29) { m.Erase(pickUid()); what = "erase"; }
    else if (r < 31) { known.push_back(m.Emplace(CstType::base)); what = "emplacebase"; }
    else if (r < 34) {
      // erase a base set and let a new one take the freed alias
      std::vector<uint32_t> bases;
      for (const auto uid : m.Core()) if (m.GetRS(uid).type == CstType::base) bases.push_back(uid);
      if (!bases.empty()) { m.Erase(rng.pick(bases)); known.push_back(m.Emplace(CstType::base)); }
      what = "rebase";
    }
    else if (r < 42) { m.SetExpressionFor(pickUid(), rng.pick(defs)); what = "setexpr"; }
    else if (r < 47) {
      const auto uid = pickUid();
      if (m.Contains(uid)) {
        static const char letters[] = "XSADFT";
        std::string name(1, letters[rng.range(0, 5)]); name += std::to_string(rng.range(1, 4));
        m.SetAliasFor(uid, name, rng.chance(1, 2));
      }
      what = "setalias";
    } else if (r < 57) { m.Values().AddBasicElement(pickUid(), "n" + std::to_string(i)); what = "addelem"; }
    else if (r < 66) {
      std::vector<int> keys; const int n = rng.range(0, 3);
      for (int k = 0; k < n; ++k) keys.push_back(rng.range(1, 4));
      const auto uid = pickUid();
      if (m.Contains(uid) && IsBaseSet(m.GetRS(uid).type)) m.Values().SetBasicText(uid, textOf(keys));
      what = "settext";
    } else if (r < 74) {
      // structure data over elements 1..3 of X1
      const auto uid = pickUid();
      if (m.Contains(uid) && m.GetRS(uid).type == CstType::structured && m.GetParse(uid).Typification() != nullptr) {
        const auto& typ = *m.GetParse(uid).Typification();
        auto data = object::Factory::EmptySet();
        const int n = rng.range(0, 3);
        for (int k = 0; k < n; ++k) {
          if (typ.IsCollection() && typ.B().Base().IsTuple())
            data.ModifyB().AddElement(object::Factory::Tuple({ object::Factory::Val(rng.range(1, 3)), object::Factory::Val(rng.range(1, 3)) }));
          else if (typ.IsCollection() && typ.B().Base().IsCollection()) {
            auto inner = object::Factory::EmptySet();
            const int q = rng.range(0, 2);
            for (int j = 0; j < q; ++j) inner.ModifyB().AddElement(object::Factory::Val(rng.range(1, 3)));
            data.ModifyB().AddElement(inner);
          }
        }
        m.Values().SetStructureData(uid, data);
      }
      what = "setstruct";
    } else if (r < 78) { m.Values().ResetDataFor(pickUid()); what = "resetdata"; }
    else if (r < 92) { m.Calculations().Calculate(pickUid()); what = "calc"; }
    else { m.Calculations().RecalculateAll(); what = "recalc"; }
    emit("c11 freshimpl " + what, freshOracle(m));
    emit("c11 structvalid " + what, structOracle(m));
  }
}

int main() {
  vh::Rng rng(vh::seedFromEnv());
  const bool deep = vh::thorough();
  const int HF = deep ? 2500 : 250, HG = deep ? 1500 : 150;
  for (int h = 0; h < HF; ++h) { const auto cs = rng.next(); vh::Rng sub(cs); vh::forkedEmit([&] { ccl::verif::Seed(static_cast<uint32_t>(cs)); fragmentHistory(sub, deep ? 35 : 25); }, "c11 crash"); }
  for (int h = 0; h < HG; ++h) { const auto cs = rng.next(); vh::Rng sub(cs); vh::forkedEmit([&] { ccl::verif::Seed(static_cast<uint32_t>(cs)); generalHistory(sub, deep ? 35 : 25); }, "c11 crash"); }
  for (int h = 0; h < (deep ? 200 : 40); ++h) { const auto cs = rng.next(); vh::Rng sub(cs); vh::forkedEmit([&] { ccl::verif::Seed(static_cast<uint32_t>(cs)); callableHistory(sub); }, "c11 crash"); }
  return 0;
}
