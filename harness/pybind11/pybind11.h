// Stub of <pybind11/pybind11.h> for the verification harness only: lets pyconcept.cpp (the seven
// plain C++ functions behind the Python binding) be compiled and called directly, without Python.
#pragma once
namespace vh_pystub {
struct Module { template<class... A> Module& def(A&&...) { return *this; } };
}
#define PYBIND11_MODULE(name, m) [[maybe_unused]] static void vh_pystub_init_##name(vh_pystub::Module& m)
