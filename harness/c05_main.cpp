// C05 correspondence harness: lexer / parser / generator of RS expressions in both syntaxes.
// Ops:  c05 lex <syn> <hexText>            -> tokens NAME:data:lo:hi,... (through END)
//       c05 parse <syn> <hexText>          -> fail | astWire
//       c05 printparse <syn> <astWire>     -> noparse <hex> | 1 <hex> | 0 <hex>
//       c05 roundtrip <src> <dst> <hexText>-> nop | noparse <hex> | 1 <hex> | 0 <hex>
//       c05 convert <dst> <hexText>        -> hex of ConvertTo(text, dst)                      (model: Model/Convert.lean)
//       c05 convback <src> <hexText>       -> nop | noparse <hex> | 1 <hex> | 0 <hex>   (to the other syntax and back)
//       c05 convidem[-amb] <dst> <hexText>-> nop | 1 <hex> | 0 <hex>                     (converted twice = converted once)
//       c05 rt-overflow / rt-translit <src> <dst> <hexText>, c05 pp-translit / pp-overflow <syn> <astWire>:
//         the same two operations, emitted ONLY by the dedicated generators of the two recorded finding
//         classes (K5 numeric overflow, K7 transliteration onto a keyword; known_findings.json matches
//         these op names); the general generators drop any case of those classes.
#include "syntax_gen.hpp"
#include "ccl/rslang/RSGenerator.h"

using namespace sg;
using vh::hex;
using ccl::rslang::Parser;
using ccl::rslang::Generator;

static std::string printParse(const GAst& g, Syntax syn) {
  const SyntaxTree tree = buildTree(g);
  const std::string text = Generator::FromTree(tree, syn);
  Parser p2;
  if (!p2.Parse(text, syn)) return "noparse " + hex(text);
  const SyntaxTree expected = translitTree(tree, syn);
  return std::string(p2.AST() == expected ? "1 " : "0 ") + hex(text);
}

static std::string roundTrip(const std::string& text, Syntax src, Syntax dst) {
  Parser p1;
  if (!p1.Parse(text, src)) return "nop";
  const std::string t = Generator::FromTree(p1.AST(), dst);
  Parser p2;
  if (!p2.Parse(t, dst)) return "noparse " + hex(t);
  const SyntaxTree expected = translitTree(p1.AST(), dst);
  return std::string(p2.AST() == expected ? "1 " : "0 ") + hex(t);
}

// ---- ccl::rslang::ConvertTo (the entry point the Python package and the UI use) ------------------------------
static Syntax otherSyn(Syntax s) { return s == Syntax::MATH ? Syntax::ASCII : Syntax::MATH; }
static std::string convertOnce(const std::string& text, Syntax target) { return hex(ccl::rslang::ConvertTo(text, target)); }
// there and back: the text comes back with the tree it had (local names transliterated once)
static std::string convertBack(const std::string& text, Syntax src) {
  Parser p1;
  if (!p1.Parse(text, src)) return "nop";
  const std::string a = ccl::rslang::ConvertTo(text, otherSyn(src));
  const std::string b = ccl::rslang::ConvertTo(a, src);
  Parser p2;
  if (!p2.Parse(b, src)) return "noparse " + hex(b);
  const SyntaxTree expected = translitTree(p1.AST(), Syntax::ASCII);
  return std::string(p2.AST() == expected ? "1 " : "0 ") + hex(b);
}
// converting a converted text again to the same target changes nothing
static std::string convertIdem(const std::string& text, Syntax target) {
  Parser p1;
  if (!p1.Parse(text, otherSyn(target))) return "nop";
  const std::string a = ccl::rslang::ConvertTo(text, target);
  const std::string aa = ccl::rslang::ConvertTo(a, target);
  return std::string(a == aa ? "1 " : "0 ") + hex(aa);
}
// texts that are valid in BOTH syntaxes with different trees once converted: `*` is the product in ASCII and the
// multiplication in MATH (so `×`, `*` and `\\multiply` all lead there), and the ASCII keyword of an EMPTY definition
// (`X1 \\defexpr`) reads in MATH as `X1 \\ defexpr` (set difference with a local name). Recorded finding class.
static bool isAmbiguous(const std::string& t) {
  if (t.find('*') != std::string::npos || t.find("\xC3\x97") != std::string::npos || t.find("\\multiply") != std::string::npos) return true;
  size_t e = t.size();
  while (e > 0 && (t[e - 1] == ' ' || t[e - 1] == '\t' || t[e - 1] == '\n')) --e;
  const std::string core = t.substr(0, e);
  const auto ends = [&](const std::string& suf) { return core.size() >= suf.size() && core.compare(core.size() - suf.size(), suf.size(), suf) == 0; };
  return ends(":==") || ends("\\defexpr");
}

static GAst zeroed(GAst g) {
  g.lo = g.hi = 0;
  for (auto& k : g.kids) k = zeroed(k);
  return g;
}

struct Ctx {
  Suite S;
  vh::Rng rng{ vh::seedFromEnv() };
  bool deep{ vh::thorough() };

  void lex(const std::string& cls, Syntax syn, const std::string& text) {
    S.add(cls, std::string("c05 lex ") + synName(syn) + " " + hex(text), [=] { return lexResult(text, syn); });
  }
  void parse(const std::string& cls, Syntax syn, const std::string& text) {
    S.add(cls, std::string("c05 parse ") + synName(syn) + " " + hex(text), [=] { return parseResult(text, syn); });
  }
  // true only inside the dedicated generators of the two recorded-finding classes (K5 overflow, K7 translit)
  bool dedicated{ false };

  void printparse(const std::string& cls, Syntax syn, const GAst& g0) {
    const GAst g = zeroed(g0);
    const unsigned known = knownMask(g, syn == Syntax::ASCII);
    if (known != 0 && !dedicated) { S.dropKnown(); return; }
    const char* op = (known & K7) ? "pp-translit" : (known & K5) ? "pp-overflow" : "printparse";
    S.add(known ? "K:" + knownName(known) + "(" + cls + ")" : cls,
          std::string("c05 ") + op + " " + synName(syn) + " " + wire(g, true), [=] { return printParse(g, syn); });
  }
  void roundtripText(const std::string& cls, unsigned known, Syntax src, Syntax dst, const std::string& text) {
    if (known != 0 && !dedicated) { S.dropKnown(); return; }
    const char* op = (known & K7) ? "rt-translit" : (known & K5) ? "rt-overflow" : "roundtrip";
    S.add(known ? "K:" + knownName(known) + "(" + cls + ")" : cls,
          std::string("c05 ") + op + " " + synName(src) + " " + synName(dst) + " " + hex(text), [=] { return roundTrip(text, src, dst); });
    if (src != dst) convertOps(cls, known, src, text);
  }
  // ConvertTo on the same text: result (correspondence), there-and-back (meaning preserved), idempotence.
  // The recorded-finding classes keep their own op names; idempotence on texts with `*` / `×` is a class of its own
  // (one spelling, two meanings: product in ASCII, multiplication in MATH).
  void convertOps(const std::string& cls, unsigned known, Syntax src, const std::string& text) {
    const Syntax dst = otherSyn(src);
    const std::string suffix = (known & K7) ? "-translit" : (known & K5) ? "-overflow" : "";
    const std::string c = known ? "K:" + knownName(known) + "(" + cls + ")" : cls;
    S.add(c, "c05 convert" + suffix + " " + synName(dst) + " " + hex(text), [=] { return convertOnce(text, dst); });
    S.add(c, "c05 convback" + suffix + " " + synName(src) + " " + hex(text), [=] { return convertBack(text, src); });
    S.add(c, "c05 convidem" + (suffix.empty() && isAmbiguous(text) ? std::string("-amb") : suffix) + " " + synName(dst) + " " + hex(text), [=] { return convertIdem(text, dst); });
  }
  // texts that need not parse: ConvertTo must hand them back unchanged (or convert them if they do parse)
  void convertAny(const std::string& cls, const std::string& text) {
    for (Syntax dst : { Syntax::MATH, Syntax::ASCII })
      S.add(cls, std::string("c05 convert ") + synName(dst) + " " + hex(text), [=] { return convertOnce(text, dst); });
  }
  // text rendered from a tree: classification comes from the tree
  void roundtripTree(const std::string& cls, Syntax src, Syntax dst, const GAst& g, int parenMode, int wsMode) {
    GAst c = g;
    const std::string text = render(c, src, parenMode, wsMode, rng).text;
    roundtripText(cls, knownMask(g, dst == Syntax::ASCII), src, dst, text);
  }
};

int main() {
  Ctx C;
  auto& S = C.S; auto& rng = C.rng; const bool deep = C.deep;
  const Syntax M = Syntax::MATH, A = Syntax::ASCII;
  const std::vector<Syntax> syns = { M, A };

  // ---- A. exhaustive operator triples, B. constructor forms ---------------------------------
  for (int greek = 0; greek < 2; ++greek) {
    const Names nm = greek ? namesGreek() : namesAscii();
    for (int fam = 0; fam < 2; ++fam) {
      const auto trees = fam == 0 ? exhaustiveTrees(nm) : formTrees(nm);
      const std::string cls = fam == 0 ? "A" : "B";
      for (const auto& lt : trees) {
        if (fam == 0) S.triples.insert(lt.label);
        for (Syntax syn : syns) C.printparse(cls, syn, lt.tree);
        const Syntax src = greek ? M : A;
        for (Syntax dst : syns) C.roundtripTree(cls, src, dst, lt.tree, 0, 0);
        if (!greek && fam == 1) for (Syntax dst : syns) C.roundtripTree(cls, M, dst, lt.tree, 1, 2);
        if (deep) for (Syntax dst : syns) for (int v = 0; v < 3; ++v) C.roundtripTree(cls, src, dst, lt.tree, 1, 1 + v % 2);
      }
    }
  }

  // ---- C. random well-formed trees -------------------------------------------------------------
  const int maxD = deep ? 6 : 4;
  const int N = deep ? 3000 : 300;
  for (Syntax syn : syns)
    for (int i = 0; i < N; ++i) {
      GenOpt o; o.greek = true;   // former classes 1-4 are no longer avoided
      TreeGen g(rng, o);
      GAst t;
      for (int tries = 0;; ++tries) { t = g.genTop(rng.range(1, tries < 20 ? maxD : 2)); if (nodeCount(t) <= 45) break; }
      C.printparse("C", syn, t);
    }
  for (Syntax src : syns)
    for (Syntax dst : syns)
      for (int i = 0; i < N; ++i) {
        GenOpt o; o.greek = src == M;
        TreeGen g(rng, o);
        for (int tries = 0;; ++tries) {
          GAst t = g.genTop(rng.range(1, tries < 20 ? maxD : 2));
          GAst c = t;
          const std::string text = render(c, src, rng.chance(3, 4) ? 1 : 0, static_cast<int>(rng.below(3)), rng).text;
          if (text.size() > 190) continue;
          C.roundtripText("C", knownMask(t, dst == A), src, dst, text);
          break;
        }
      }

  // ---- D. malformed stream ---------------------------------------------------------------------
  for (Syntax syn : syns) {
    for (const auto& t : fixedMalformed(syn)) {
      C.lex("D:fixed", syn, t); C.parse("D:fixed", syn, t);
      C.lex("D:fixed-cross", syn == M ? A : M, t);
    }
  }
  const int nSoup = deep ? 5000 : 400, nMut = deep ? 4000 : 300;
  for (int i = 0; i < nSoup; ++i) {
    const std::string t = soupText(rng, rng.chance(1, 2) ? 4 : 12);
    if (t.size() > 190) continue;
    for (Syntax syn : syns) { C.lex("D:soup", syn, t); C.parse("D:soup", syn, t); }
    if (i % 2 == 0) C.convertAny("D:soup", t);
  }
  for (Syntax syn : syns) {
    const auto ex = exhaustiveTrees(namesAscii());
    const auto fm = formTrees(syn == M ? namesGreek() : namesAscii());
    for (int i = 0; i < nMut; ++i) {
      GAst t;
      const auto r = rng.below(3);
      if (r == 0) t = ex[rng.below(static_cast<uint32_t>(ex.size()))].tree;
      else if (r == 1) t = fm[rng.below(static_cast<uint32_t>(fm.size()))].tree;
      else { GenOpt o; o.greek = syn == M; TreeGen g(rng, o); t = g.genTop(rng.range(1, 3)); }
      const auto rd = render(t, syn, rng.chance(1, 2) ? 1 : 0, 0, rng);
      const std::string txt = mutateToks(rd.toks, syn, rng);
      if (txt.size() > 190) continue;
      C.lex("D:mutation", syn, txt); C.parse("D:mutation", syn, txt);
      if (i % 2 == 0) C.convertAny("D:mutation", txt);
    }
  }
  // valid texts through lex/parse as well (positive cases of the same ops)
  for (Syntax syn : syns) {
    const int nv = deep ? 1500 : 150;
    for (int i = 0; i < nv; ++i) {
      GenOpt o; o.greek = syn == M; TreeGen g(rng, o);
      GAst t = g.genTop(rng.range(1, maxD));
      const std::string txt = render(t, syn, 1, static_cast<int>(rng.below(3)), rng).text;
      if (txt.size() > 190) continue;
      C.lex("D:valid", syn, txt); C.parse("D:valid", syn, txt);
    }
  }

  // ---- E. corpus of the former defects 1-4 (repaired in /repo: always run, must round-trip now) ------------
  {
    const GAst a = Lc("a"), b = Lc("b"), X1 = Gl("X1"), S1 = Gl("S1");
    // former k1: `<` printed to ASCII
    C.printparse("corpus:k1", A, B2(T::LESSER, a, b));
    C.printparse("corpus:k1", A, U1(T::NOT, B2(T::LESSER, U1(T::CARD, X1), mkInt(3))));
    C.printparse("corpus:k1", A, mk(T::FORALL, { a, X1, B2(T::AND, B2(T::LESSER, a, b), B2(T::EQUAL, a, b)) }));
    for (Syntax src : syns) C.roundtripTree("corpus:k1", src, A, B2(T::LESSER, a, b), 0, 0);
    for (Syntax src : syns) C.roundtripTree("corpus:k1", src, A, B2(T::OR, B2(T::LESSER, a, mkInt(1)), B2(T::GREATER, a, b)), 0, 1);
    // former k2: recursion printed to ASCII
    const GAst recS = mk(T::NT_RECURSIVE_SHORT, { a, X1, B2(T::UNION, a, X1) });
    const GAst recF = mk(T::NT_RECURSIVE_FULL, { a, X1, B2(T::NOTEQUAL, a, X1), B2(T::UNION, a, X1) });
    for (const auto& r : { recS, recF }) { C.printparse("corpus:k2", A, r); for (Syntax src : syns) C.roundtripTree("corpus:k2", src, A, r, 0, 0); }
    // former k3 / k4: X1×(X2∪X3), (a+b)×c, (a+b)∪c, (a*b)∩c and embedded ones (the exhaustive family A covers all 22 triples)
    const GAst k3 = U1(T::BOOLEAN, mk(T::DECART, { X1, B2(T::UNION, X1, S1) }));
    const GAst k3b = mk(T::DECART, { B2(T::PLUS, a, b), Lc("c") });
    const GAst k3c = mk(T::DECART, { X1, B2(T::UNION, Gl("X2"), Gl("X3")) });
    const GAst k4 = B2(T::EQUAL, B2(T::UNION, B2(T::PLUS, a, b), X1), S1);
    const GAst k4b = B2(T::UNION, B2(T::PLUS, a, b), Lc("c"));
    const GAst k4c = B2(T::INTERSECTION, B2(T::MULTIPLY, a, b), Lc("c"));
    for (const auto& t : { k3, k3b, k3c, k4, k4b, k4c })
      for (Syntax syn : syns) { C.printparse("corpus:k34", syn, t); for (Syntax dst : syns) C.roundtripTree("corpus:k34", syn, dst, t, 0, 0); }
    // former k6 (zero index): ordinary cases since the /repo fix; an EMPTY index tuple can no longer come out of the
    // parser and is outside the property's quantifier (no printparse of it)
    for (Syntax src : syns)
      for (Syntax dst : syns)
        for (const std::string& t : { std::string("pr0(a)"), std::string("Pr0(S1)"), std::string("Fi0[X1](S1)"), std::string("pr1,0(a)"), std::string("pr0,1(a)"), std::string("pr65536(a)") })
          C.roundtripText("corpus:k6", 0, src, dst, t);
  }
  // ---- K. dedicated generators of the two RECORDED finding classes (own op names: rt-overflow, rt-translit, pp-translit) ----
  {
    C.dedicated = true;
    const GAst a = Lc("a");
    // K5: integer literals >= 2^31 and indices > 32767 (some wrap to a value that happens to re-parse)
    for (Syntax src : syns)
      for (Syntax dst : syns) {
        const std::string eq = src == M ? "=" : " \\eq ";
        for (const std::string& t : { "2147483648" + eq + "a", std::string("4294967297"), std::string("99999999999999999999"), std::string("2147483649") + eq + "2147483647",
                                       std::string("pr40000(a)"), std::string("pr70000(a)"), std::string("Pr32768(S1)"), std::string("Fi1,40000[X1](S1)") })
          C.roundtripText("K5", K5, src, dst, t);
      }
    // K7: Greek local names whose transliteration is a keyword, printed to ASCII
    for (const auto& nm : localsKeywordGreek()) {
      const GAst t = B2(T::EQUAL, Lc(nm), a);
      C.printparse("K7", A, t);
      C.roundtripTree("K7", M, A, t, 0, 0);
    }
    C.dedicated = false;
    for (const auto& nm : localsKeywordGreek()) {   // the same names are harmless when the target is MATH
      const GAst t = B2(T::EQUAL, Lc(nm), a);
      C.printparse("K7:control", M, t);
      C.roundtripTree("K7:control", M, M, t, 0, 0);
    }
  }
  // texts without any byte that hints MATH (seeded change C05-3: a converter that guesses the source syntax), with the
  // spellings that mean different things in the two syntaxes
  for (const std::string& t : { std::string("card(X1)*card(X2)"), std::string("X1\\X2"), std::string("X1*X2"), std::string("a*b"), std::string("D1\\D2*D3"),
                                 std::string("pr1(S1)*pr2(S1)"), std::string("(a*b)*c"), std::string("F1[X1*X1]"), std::string("card(X1\\X2)*2") })
    C.convertOps("E:nohint", 0, M, t);
  for (const std::string& t : { std::string("X1*X2"), std::string("X1 \\union X2"), std::string("card(X1) \\multiply card(X2)"), std::string("a \\in X1*X2"), std::string("X1 \\setminus X2") })
    C.convertOps("E:nohint", 0, A, t);
  // sure failures through roundtrip (`nop`)
  for (Syntax src : syns)
    for (Syntax dst : syns) {
      const std::string eq = src == M ? "=" : " \\eq ";
      for (const std::string& t : { std::string(""), std::string("(X1)"), "((a" + eq + "b))", "a" + eq + "b" + eq + "c", std::string("F1[]"), std::string("{a,}") })
        C.roundtripText("D:nop", 0, src, dst, t);
    }

  S.summary("c05");
  S.runAll();
  return 0;
}
