// C14 correspondence harness: CGraph under exhaustive short and random long update histories.
#include "common.hpp"
#include "ccl/graph/CGraph.h"
#include <algorithm>
#include <set>

using namespace ccl;
using ccl::graph::CGraph;
using vh::emit;

static std::string join(const std::vector<uint32_t>& v, const char* sep = ",") {
  std::string out;
  for (size_t i = 0; i < v.size(); ++i) { if (i) out += sep; out += std::to_string(v[i]); }
  return out;
}
static std::string listArg(const std::vector<uint32_t>& v) { return v.empty() ? "-" : join(v); }
template<class C> static std::vector<uint32_t> sorted(const C& c) {
  std::vector<uint32_t> v(c.begin(), c.end()); std::sort(v.begin(), v.end()); return v;
}

struct Ctx {
  CGraph g;
  std::set<uint32_t> universe;   // every uid ever mentioned in this history

  std::vector<uint32_t> live() const {
    std::vector<uint32_t> v;
    for (auto u : universe) if (g.Contains(u)) v.push_back(u);
    return v;
  }

  void dump() {
    const auto items = live();
    std::string edges; bool first = true; int m = 0;
    for (auto a : items) for (auto b : items) if (g.ConnectionExists(a, b)) {
      if (!first) edges += ","; first = false; ++m;
      edges += std::to_string(a) + ">" + std::to_string(b);
    }
    const auto topo = g.TopologicalOrder();
    const auto inv = g.InverseTopologicalOrder();
    std::vector<std::vector<uint32_t>> groups;
    for (const auto& grp : g.GetAllLoopsItems()) groups.push_back(sorted(grp));
    std::sort(groups.begin(), groups.end());
    std::string gs;
    for (size_t i = 0; i < groups.size(); ++i) { if (i) gs += "|"; gs += join(groups[i]); }
    std::string ins;
    for (size_t i = 0; i < items.size(); ++i) {
      if (i) ins += ";";
      ins += std::to_string(items[i]) + ":" + join(sorted(g.InputsFor(items[i])));
    }
    emit("c14 dump", "items=" + join(items) + " edges=" + edges + " n=" + std::to_string(g.ItemsCount()) +
      " m=" + std::to_string(g.ConnectionsCount()) + " loop=" + (g.HasLoop() ? "1" : "0") +
      " topo=" + join({ topo.begin(), topo.end() }) + " inv=" + join({ inv.begin(), inv.end() }) +
      " groups=" + gs + " in=" + ins);
    emit("c14 chktopo " + listArg({ topo.begin(), topo.end() }), "1");
    emit("c14 chkinv " + listArg({ inv.begin(), inv.end() }), "1");
  }

  void queries(vh::Rng& rng, int maxU, int count) {
    for (int i = 0; i < count; ++i) {
      const uint32_t a = static_cast<uint32_t>(rng.range(1, maxU)), b = static_cast<uint32_t>(rng.range(1, maxU));
      emit("c14 has " + std::to_string(a), g.Contains(a) ? "1" : "0");
      emit("c14 edge " + std::to_string(a) + " " + std::to_string(b), g.ConnectionExists(a, b) ? "1" : "0");
      emit("c14 reach " + std::to_string(a) + " " + std::to_string(b), g.IsReachableFrom(a, b) ? "1" : "0");
      SetOfEntities s;
      const int k = rng.range(0, 3);
      for (int j = 0; j < k; ++j) s.insert(static_cast<uint32_t>(rng.range(1, maxU + 1)));
      const std::vector<uint32_t> order(s.begin(), s.end());
      emit("c14 expout " + listArg(order), join(sorted(g.ExpandOutputs(s))));
      emit("c14 expin " + listArg(order), join(sorted(g.ExpandInputs(s))));
      const auto srt = g.Sort(s);
      const auto topo = g.TopologicalOrder();
      emit("c14 sort " + listArg(order), join({ srt.begin(), srt.end() }));
      emit("c14 chksort " + listArg(order) + " " + listArg({ srt.begin(), srt.end() }) + " " + listArg({ topo.begin(), topo.end() }), "1");
    }
  }
  void allQueries(int maxU) {
    for (int a = 1; a <= maxU; ++a) for (int b = 1; b <= maxU; ++b)
      emit("c14 reach " + std::to_string(a) + " " + std::to_string(b), g.IsReachableFrom(static_cast<uint32_t>(a), static_cast<uint32_t>(b)) ? "1" : "0");
    for (int a = 1; a <= maxU; ++a) {
      SetOfEntities s{ static_cast<uint32_t>(a) };
      emit("c14 expout " + std::to_string(a), join(sorted(g.ExpandOutputs(s))));
      emit("c14 expin " + std::to_string(a), join(sorted(g.ExpandInputs(s))));
    }
  }
};

struct Op { int kind; uint32_t a, b; std::vector<uint32_t> set; };  // 0 add 1 erase 2 conn 3 setin 4 clear

static void apply(Ctx& c, const Op& op) {
  switch (op.kind) {
  case 0: c.universe.insert(op.a); c.g.AddItem(op.a); emit("c14 add " + std::to_string(op.a), "ok"); break;
  case 1: c.g.EraseItem(op.a); emit("c14 erase " + std::to_string(op.a), "ok"); break;
  case 2: c.universe.insert(op.a); c.universe.insert(op.b); c.g.AddConnection(op.a, op.b);
    emit("c14 conn " + std::to_string(op.a) + " " + std::to_string(op.b), "ok"); break;
  case 3: {
    SetOfEntities s(op.set.begin(), op.set.end());
    c.universe.insert(op.a); for (auto u : s) c.universe.insert(u);
    const std::vector<uint32_t> order(s.begin(), s.end());   // the iteration order the code will use
    c.g.SetItemInputs(op.a, s);
    emit("c14 setin " + std::to_string(op.a) + " " + listArg(order), "ok"); break;
  }
  default: c.g.Clear(); emit("c14 clear", "ok"); break;
  }
}

static std::vector<Op> allOps(int U) {
  std::vector<Op> ops;
  for (int a = 1; a <= U; ++a) ops.push_back({ 0, static_cast<uint32_t>(a), 0, {} });
  for (int a = 1; a <= U; ++a) ops.push_back({ 1, static_cast<uint32_t>(a), 0, {} });
  for (int a = 1; a <= U; ++a) for (int b = 1; b <= U; ++b) ops.push_back({ 2, static_cast<uint32_t>(a), static_cast<uint32_t>(b), {} });
  for (int a = 1; a <= U; ++a) for (int mask = 0; mask < (1 << U); ++mask) {
    Op op{ 3, static_cast<uint32_t>(a), 0, {} };
    for (int k = 0; k < U; ++k) if (mask & (1 << k)) op.set.push_back(static_cast<uint32_t>(k + 1));
    ops.push_back(op);
  }
  ops.push_back({ 4, 0, 0, {} });
  return ops;
}

static void runHistory(const std::vector<Op>& h, int U) {
  Ctx c;
  emit("c14 reset", "ok");
  for (const auto& op : h) apply(c, op);
  c.dump();
  c.allQueries(U);
}

static void enumerate(const std::vector<Op>& ops, std::vector<Op>& cur, int depth, int U) {
  if (!cur.empty()) runHistory(cur, U);
  if (depth == 0) return;
  for (const auto& op : ops) { cur.push_back(op); enumerate(ops, cur, depth - 1, U); cur.pop_back(); }
}

int main() {
  vh::Rng rng(vh::seedFromEnv());
  const bool deep = vh::thorough();
  {
    // exhaustive histories: universe {1,2} length <= 3 and {1,2,3} length <= 2 (quick); one longer each (thorough)
    std::vector<Op> cur;
    enumerate(allOps(2), cur, deep ? 4 : 3, 2);
    enumerate(allOps(3), cur, deep ? 3 : 2, 3);
  }
  // the corpus of past findings runs always: edges 1->3, 1->2, 2->1
  runHistory({ {2,1,3,{}}, {2,1,2,{}}, {2,2,1,{}} }, 3);
  // random long histories with collisions, erase-then-reinsert, self loops
  const int H = deep ? 3000 : 250, L = deep ? 60 : 30, U = deep ? 8 : 6;
  for (int hI = 0; hI < H; ++hI) {
    Ctx c;
    emit("c14 reset", "ok");
    const int u = rng.range(3, U);
    for (int i = 0; i < L; ++i) {
      Op op{ 0, 0, 0, {} };
      const int r = rng.range(0, 99);
      op.a = static_cast<uint32_t>(rng.range(1, u)); op.b = static_cast<uint32_t>(rng.range(1, u));
      if (r < 10) op.kind = 0; else if (r < 25) op.kind = 1; else if (r < 70) op.kind = 2;
      else if (r < 98) { op.kind = 3; const int k = rng.range(0, 3); for (int j = 0; j < k; ++j) op.set.push_back(static_cast<uint32_t>(rng.range(1, u))); }
      else op.kind = 4;
      apply(c, op);
      if (i % 3 == 2 || i == L - 1) { c.dump(); c.queries(rng, u, 2); }
    }
  }
  return 0;
}
